/-
  C01 — `parse()` is total: it always returns a well-formed result/error record.

  What is proved here is proved about the MODEL of `hotxlfp.Parser.parse`
  (`HotXL.Eval.parseTop = finish ∘ evalExpr ∘ parseFormula`), for every input string, every
  environment of host values / host functions (which may raise), and — for the wrapper
  `finish` — for EVERY evaluator outcome whatsoever, so that no builtin, arity or callback
  behaviour expressible in the model can produce an ill-formed record.  That the real
  `parse` behaves like the model, and that it returns within a step budget, is the business of
  the harness (`harness/props/c01.py`: correspondence + the statement evaluated on the real
  implementation).

  Termination.  "Returns in bounded time" is, in the model, the fact that every function below
  is a total Lean definition: no `partial`, every Python loop is a recursion that Lean's
  termination checker accepted (the harness's token audit rejects `partial def` anywhere in
  the import closure of this file, which is why all model files are imported here).
  Where a definition uses *fuel*, running out of fuel never yields a success value, and the
  fuel lemmas say that the fuel passed by the callers is enough / irrelevant.

  | modelled Python loop                                   | Lean definition                    | termination argument                                                        |
  |--------------------------------------------------------|------------------------------------|-----------------------------------------------------------------------------|
  | `while column >= 0` in `column_index_to_label`         | `Cell.colLoop`                     | well-founded, measure `(column+1).toNat` (`column / 26 - 1 < column`); `term_colLoop` |
  | `str(int)` digit loop                                  | `PyNum.natDigitsAux`               | well-founded, measure `n` (`n / 10 < n` for `n ≥ 10`); `term_natDigits`      |
  | `for listener in listeners` + re-entrant `emit`        | `Emitter.runOps/step/deliver/call` | lexicographic `(fuel, tag, list length)`; fuel = callback nesting depth, at fuel 0 the callback is logged and its body not run (Python: RecursionError) |
  | ply's `token()` loop over the master regex             | `Lexer.tokenizeAux`                | structural on fuel; fuel `length + 1` is enough: `tokenize_consumes` (each rule that fires consumes ≥ 1 character: `lexOne_consumes`) |
  | regex scans (`\s+`, `[0-9]+`, string bodies)           | `Lexer.spanLen`, `Lexer.scanString`| structural on the character list                                            |
  | ply's LALR shift/reduce loop                           | `Syntax.parsePrimary/parseVarSeq/parseExpr/parseLoop/parseItems` | structural on fuel (mutual); the fuel `3·tokens + 3` passed by `parseTokens` is enough and any larger fuel gives the same outcome, errors included: `parser_fuel_enough`, `parseTokens_fuel_enough` (each success consumes input: `parser_consumes`); out of fuel = `.error .syntax`, never a tree (`parser_fuel_zero`); a success is stable under more fuel: `parser_fuel_monotone` |
  | list building in `p_expseq_*`                          | `Syntax.slotsOf/acceptTail/splitAtSemicolon` | structural on the item list                                       |
  | `ExcelArrayOps` element-wise recursion                 | `Ops.evalArith/zipArith`           | lexicographic `(fuel, list length)`; fuel = array nesting depth (64); out of fuel = raised `#ERROR!`, never a value: `term_zipArith` (Python recurses to its recursion limit and then also reports `#ERROR!`; for arrays nested between 64 and that limit the model is NOT faithful — such inputs are outside every compared stream) |
  | `utils.flatten` / `iflatten`                           | `Fn.flattenValue/flattenList`      | structural on the (nested) value: `term_flattenList`                         |
  | ply's bottom-up evaluation of the reductions           | `Eval.evalExpr/evalList`           | structural on the expression tree: `term_evalList`                           |
-/
import HotXL.Lemmas.Record
import HotXL.Lemmas.Syntax
import HotXL.Model.Emitter
import HotXL.Model.PyNum

namespace HotXL.Props.C01
open HotXL HotXL.Eval HotXL.Lexer HotXL.Syntax

/-! ## 1. the error table is closed -/

/-- `error.from_message`'s dictionary, as regenerated from /repo, maps exactly the nine code
    texts of the statement to the nine singletons: every code is a key bound to its own
    singleton, there are nine keys, pairwise distinct, all of them among the nine codes;
    the fall-back is `ERROR`. -/
theorem fromMessage_table_closed :
    (∀ e ∈ Err.all, (e.code, some e) ∈ Generated.errorTable.map (fun p => (p.1, errOfSingletonName p.2))) ∧
    Generated.errorTable.length = 9 ∧
    (Generated.errorTable.map (·.1)).Nodup ∧
    (∀ p ∈ Generated.errorTable, p.1 ∈ nineCodes) ∧
    (nineCodes.Nodup ∧ nineCodes.length = 9) ∧
    errOfSingletonName Generated.errorDefault = some .error := by
  decide

/-- `from_message('#N/A') is NOT_AVAILABLE`, … : each of the nine code texts is mapped to the
    singleton that carries it. -/
theorem fromMessage_code : ∀ e : Err, fromMessage e.code = e := by
  intro e; cases e <;> decide

/-- any other message (`'#WEIRD'`, `'boom'`, `''`, the text of a foreign exception) is mapped
    to `#ERROR!`. -/
theorem fromMessage_other {m : String} (h : m ∉ nineCodes) : fromMessage m = .error := by
  have hd := fromMessage_default (m := m) (fun p hp heq => h (heq ▸ errorTable_keys p hp))
  rw [hd]; decide

/-- whatever the message, the code reported is one of the nine. -/
theorem fromMessage_closed (m : String) : (fromMessage m).code ∈ nineCodes := code_mem_nine _

/-- `str(error.NUM) = '#NUM!'`, … : the generated module attributes carry the nine codes. -/
theorem singletonMessage_code : ∀ e : Err, singletonMessage e = e.code := by
  intro e; cases e <;> decide

/-- re-canonicalising a singleton (`from_message(str(e))`, as `parse` does with an XLError it
    caught or found as the result) gives the same singleton. -/
theorem toErr_xl (e : Err) : (Exn.xl e).toErr = e := by
  simp only [Exn.toErr, singletonMessage_code, fromMessage_code]

/-- the nine codes are pairwise distinct as texts: the record's error entry identifies the
    singleton. -/
theorem code_distinct {a b : Err} (h : a.code = b.code) : a = b := code_injective h

example : fromMessage "#WEIRD" = .error ∧ fromMessage "#N/A" = .na ∧ fromMessage "" = .error :=
  ⟨fromMessage_other (by decide), fromMessage_code .na, fromMessage_other (by decide)⟩

/-! ## 2. the record is well formed -/

/-- The `try/except` + `isinstance(result, XLError)` wrapper of `Parser.parse` produces a
    well-formed record from EVERY evaluator outcome: a raised XLError, any other raised
    exception with any message, a returned error value, a blank, any other value.  Since it
    quantifies over the outcome and not over how the outcome was produced, it covers every
    formula, every builtin at every arity and every behaviour of host callbacks. -/
theorem finish_wellformed (o : Except Exn Value) : WellFormed (finish o) := by
  refine ⟨fun e _ => code_mem_nine e, ?_, ?_⟩
  · unfold finish; split <;> simp
  · intro e; unfold finish; split <;> simp_all

/-- `parse(s)` returns a well-formed record for every string `s` — the empty string, strings
    the lexer rejects, strings the grammar rejects, and every formula that evaluates — in
    every environment of variables, host functions (returning or raising) and cell/range
    listeners. -/
theorem parseTop_wellformed (env : Env) (s : List Char) : WellFormed (parseTop env s).1 := by
  unfold parseTop
  split
  · exact ⟨fun e _ => code_mem_nine e, by simp, by simp⟩
  · split
    · exact finish_wellformed _
    · exact finish_wellformed _

/-- the empty formula: `{'result': '', 'error': None}`, nothing is evaluated. -/
theorem parseTop_empty (env : Env) : parseTop env [] = ({ result := some (.str []), error := none }, []) := rfl

/-- a string the lexer or the grammar rejects is reported as `#NAME?` (an illegal character:
    `t_error`) or `#ERROR!` (`p_error`), with an empty result, and no callback is invoked. -/
theorem parseTop_rejected {env : Env} {s : List Char} {e : PErr} (hs : s ≠ [])
    (h : parseFormula s = .error e) :
    parseTop env s = ({ result := none, error := some (match e with | .syntax => .error | .name => .name) }, []) := by
  have hne : s.isEmpty = false := by cases s <;> simp_all
  unfold parseTop
  simp only [hne, h]
  cases e
  · simp [exnOfPErr, finish, toErr_xl, singletonMessage_code, fromMessage_code]
  · simp [exnOfPErr, finish, toErr_xl]

/-- the three shapes a record can have: an error with an empty result, nothing at all, or a
    value that is neither blank nor an error object. -/
theorem finish_cases (o : Except Exn Value) :
    (∃ e, finish o = { result := none, error := some e }) ∨
    finish o = { result := none, error := none } ∨
    (∃ v, v ≠ .blank ∧ (∀ e, v ≠ .err e) ∧ finish o = { result := some v, error := none }) := by
  unfold finish
  split
  · exact .inr (.inr ⟨_, by simp, by simp, rfl⟩)
  · exact .inl ⟨_, rfl⟩
  · exact .inl ⟨_, rfl⟩
  · exact .inr (.inl rfl)
  · rename_i v h1 h2
    exact .inr (.inr ⟨v, fun h => h2 h, fun e h => h1 e h, rfl⟩)

/-! ## 4. what the error entry and the result entry are -/

/-- when the error entry is set, the result entry is empty. -/
theorem error_is_reported_empty {o : Except Exn Value} {r : Record} {e : Err}
    (h : finish o = r) (he : r.error = some e) : r.result = none := by
  subst h
  exact (finish_wellformed o).error_excludes_result (by simp [he])

example : (finish (.error (.py "boom"))).error = some .error ∧ (finish (.error (.py "boom"))).result = none :=
  ⟨by simp [finish, Exn.toErr, fromMessage_other (m := "boom") (by decide)],
   error_is_reported_empty rfl (e := .error) (by simp [finish, Exn.toErr, fromMessage_other (m := "boom") (by decide)])⟩

/-- an evaluation that ends with a value other than blank or an error object reports exactly
    that value and no error. -/
theorem value_outcomes (v : Value) (hb : v ≠ .blank) (he : ∀ e, v ≠ .err e) :
    finish (.ok v) = { result := some v, error := none } := by
  unfold finish
  split <;> simp_all

example : finish (.ok (.num (.int 7))) = { result := some (.num (.int 7)), error := none } :=
  value_outcomes _ (by simp) (by simp)

/-- an evaluation that ends with an error VALUE (returned by a builtin, produced by an
    operator, bound to a variable) reports that error's code and an empty result. -/
theorem error_value_outcome (e : Err) : finish (.ok (.err e)) = { result := none, error := some e } := by
  simp [finish, singletonMessage_code, fromMessage_code]

/-- a raised XLError singleton is reported under its own code. -/
theorem raised_xl_outcome (e : Err) : finish (.error (.xl e)) = { result := none, error := some e } := by
  simp [finish, toErr_xl]

/-- any other raised exception is reported under the code its message spells, `#ERROR!` if
    it spells none (`ValueError('#N/A')` → `#N/A`, `ValueError('boom')` → `#ERROR!`). -/
theorem raised_py_outcome (m : String) :
    finish (.error (.py m)) = { result := none, error := some (fromMessage m) } := rfl

/-- a blank outcome gives the all-empty record. -/
theorem blank_outcome : finish (.ok .blank) = { result := none, error := none } := rfl

/-- a host function (or builtin) that RAISES inside `call_function` does not abort the
    formula: the call's value is the canonical error object of the exception. -/
theorem callFunction_raise_is_value (env : Env) (name : List Char) (args : List Value) (log : Log)
    (f : HostFn) (x : Exn) (hf : env.custom name = some f) (hx : f args = .error x)
    (hu : x ≠ .unmodelled) :
    callFunction env name args log = (.ok (.err x.toErr), log ++ [.fn name args]) := by
  unfold callFunction
  -- the third alternative of the match needs `x ≠ .unmodelled`: discharged from `hu`
  simp only [hf, hx]

example : (callFunction { Env.empty with custom := fun _ => some (fun _ => .error (.py "#N/A")) }
    ['F'] [] []).1 matches .ok (.err .na) := by decide

/-! ## 3. totality: the fuel lemmas -/

/-- a lexer rule that fires consumes at least one character, so the scan position strictly
    advances (ply's `token()` loop makes progress). -/
theorem lexOne_consumes {rules : List TK} {s : List Char} {k : TK} {n : Nat}
    (h : lexOne rules s = some (k, n)) : 0 < n := lexOne_pos h

/-- `tokenizeAux` never stops early for lack of fuel: with ANY fuel of at least
    `length s + 1` the token stream is the one `tokenize` computes (fuel `length s + 1`). -/
theorem tokenize_consumes (s : List Char) (fuel : Nat) (h : s.length + 1 ≤ fuel) :
    tokenizeAux ruleOrder fuel s = tokenize s :=
  tokenizeAux_fuel ruleOrder fuel s (by omega) (s.length + 1) (by omega)

example : tokenizeAux ruleOrder 1000 "1+2".toList = tokenize "1+2".toList :=
  tokenize_consumes _ _ (by decide)

/-- the parser's fuel: whenever one of the five mutually recursive parsing functions
    succeeds with fuel `f`, it returns the same tree and the same remaining tokens with any
    larger fuel.  (Running out of fuel is `.error .syntax`, never a tree, so fuel can only
    turn an answer into a syntax error, and never changes an answer.) -/
theorem parser_fuel_monotone (f f' : Nat) (hle : f ≤ f') :
    (∀ ts v, parsePrimary f ts = .ok v → parsePrimary f' ts = .ok v) ∧
    (∀ acc ts v, parseVarSeq f acc ts = .ok v → parseVarSeq f' acc ts = .ok v) ∧
    (∀ m ts v, parseExpr f m ts = .ok v → parseExpr f' m ts = .ok v) ∧
    (∀ m l ts v, parseLoop f m l ts = .ok v → parseLoop f' m l ts = .ok v) ∧
    (∀ ts v, parseItems f ts = .ok v → parseItems f' ts = .ok v) :=
  ⟨fun _ _ h => parsePrimary_mono h hle, fun _ _ _ h => parseVarSeq_mono h hle,
   fun _ _ _ h => parseExpr_mono h hle, fun _ _ _ _ h => parseLoop_mono h hle,
   fun _ _ h => parseItems_mono h hle⟩

/-- every successful parsing step consumes input: what is left after an atom or an
    expression is strictly shorter than what it started from (ply's shift/reduce loop shifts at
    least one token per expression), and sequences / operator loops never grow the input. -/
theorem parser_consumes (f : Nat) :
    (∀ ts x r, parsePrimary f ts = .ok (x, r) → r.length < ts.length) ∧
    (∀ acc ts x r, parseVarSeq f acc ts = .ok (x, r) → r.length ≤ ts.length) ∧
    (∀ m ts x r, parseExpr f m ts = .ok (x, r) → r.length < ts.length) ∧
    (∀ m l ts x r, parseLoop f m l ts = .ok (x, r) → r.length ≤ ts.length) ∧
    (∀ ts x r, parseItems f ts = .ok (x, r) → r.length ≤ ts.length) := consume_all f

/-- ENOUGH FUEL.  With fuel at or above a bound linear in the number of tokens
    (`3n+1` for an atom, `n+1` for a dotted name, `3n+2` for an expression, `3n+1` for the
    operator loop, `3n+3` for an argument list) the answer — tree, remaining tokens, or the
    KIND of error — is the same for every larger fuel.  So above the bound an
    `.error .syntax` is a genuine syntax error and never fuel exhaustion. -/
theorem parser_fuel_enough (f g : Nat) (hle : f ≤ g) :
    (∀ ts, 3 * ts.length + 1 ≤ f → parsePrimary g ts = parsePrimary f ts) ∧
    (∀ acc ts, ts.length + 1 ≤ f → parseVarSeq g acc ts = parseVarSeq f acc ts) ∧
    (∀ m ts, 3 * ts.length + 2 ≤ f → parseExpr g m ts = parseExpr f m ts) ∧
    (∀ m l ts, 3 * ts.length + 1 ≤ f → parseLoop g m l ts = parseLoop f m l ts) ∧
    (∀ ts, 3 * ts.length + 3 ≤ f → parseItems g ts = parseItems f ts) :=
  ⟨fun ts h => (enough_all f).1 ts h g hle _ rfl, fun acc ts h => (enough_all f).2.1 acc ts h g hle _ rfl,
   fun m ts h => (enough_all f).2.2.1 m ts h g hle _ rfl, fun m l ts h => (enough_all f).2.2.2.1 m l ts h g hle _ rfl,
   fun ts h => (enough_all f).2.2.2.2 ts h g hle _ rfl⟩

/-- the fuel `3·tokens + 3` that `parseTokens` (hence `parseFormula`, hence `parse`) passes
    is enough: any fuel from `3·tokens + 2` upwards gives the same outcome, so the model's
    syntax errors are never an artefact of the fuel. -/
theorem parseTokens_fuel_enough (ts : List Token) (fuel : Nat) (h : 3 * ts.length + 2 ≤ fuel) :
    parseExpr fuel 0 ts = parseExpr (3 * ts.length + 3) 0 ts := by
  have h1 := (parser_fuel_enough (3 * ts.length + 2) fuel h).2.2.1 0 ts (Nat.le_refl _)
  have h2 := (parser_fuel_enough (3 * ts.length + 2) (3 * ts.length + 3) (by omega)).2.2.1 0 ts (Nat.le_refl _)
  rw [h1, h2]

example : parseExpr 100000 0 (tokenize "SUM(1,{2;3})+((".toList) = parseExpr (3 * (tokenize "SUM(1,{2;3})+((".toList).length + 3) 0 (tokenize "SUM(1,{2;3})+((".toList) :=
  parseTokens_fuel_enough _ _ (by decide +kernel)

/-- out of fuel is a syntax error in every parsing function, never a tree. -/
theorem parser_fuel_zero :
    (∀ ts, parsePrimary 0 ts = .error .syntax) ∧ (∀ acc ts, parseVarSeq 0 acc ts = .error .syntax) ∧
    (∀ m ts, parseExpr 0 m ts = .error .syntax) ∧ (∀ m l ts, parseLoop 0 m l ts = .error .syntax) ∧
    (∀ ts, parseItems 0 ts = .error .syntax) := by
  refine ⟨?_, ?_, ?_, ?_, ?_⟩ <;> intros <;> simp [parsePrimary, parseVarSeq, parseExpr, parseLoop, parseItems]

example : parseExpr 5 0 (tokenize "1+2".toList) = parseExpr 500 0 (tokenize "1+2".toList) := by
  have h : (parseExpr 5 0 (tokenize "1+2".toList)).toOption.isSome = true := by decide +kernel
  cases hv : parseExpr 5 0 (tokenize "1+2".toList) with
  | error e => rw [hv] at h; cases h
  | ok v => rw [(parser_fuel_monotone 5 500 (by decide)).2.2.1 _ _ _ hv]

/-! ### the loops, as equations of total functions

Each `term_*` below is the defining equation of a modelled loop.  Such an equation is
available only because Lean accepted the definition as terminating (well-founded or
structural recursion); for a `partial def` it could not be stated. -/

/-- `column_index_to_label`'s `while column >= 0` loop. -/
theorem term_colLoop (column : Int) (acc : List Char) :
    Cell.colLoop column acc =
      if column ≥ 0 ∧ Cell.baseLen ≥ 2 then
        Cell.colLoop (column / (Cell.baseLen : Int) - 1)
          (Char.ofNat ((column % (Cell.baseLen : Int)).toNat + Generated.columnChrOffset) :: acc)
      else acc := by
  rw [Cell.colLoop]; split <;> rfl

/-- the decimal-digit loop of `str(int)`. -/
theorem term_natDigits (n : Nat) (acc : List Char) :
    PyNum.natDigitsAux n acc =
      if n < 10 then PyNum.digitChar n :: acc
      else PyNum.natDigitsAux (n / 10) (PyNum.digitChar (n % 10) :: acc) := by
  rw [PyNum.natDigitsAux]; split <;> rfl

/-- the element-wise loop of `ExcelArrayOps`. -/
theorem term_zipArith (fuel : Nat) (op : Ops.ArithOp) (x y : Value) (xs ys : List Value) :
    Ops.zipArith fuel op (x :: xs) (y :: ys) =
      (do let v ← Ops.evalArith fuel op x y
          let vs ← Ops.zipArith fuel op xs ys
          pure (v :: vs)) := by
  rw [Ops.zipArith]

/-- `utils.flatten`: depth-first over arbitrarily nested lists. -/
theorem term_flattenList (x : Value) (xs : List Value) :
    Fn.flattenList (x :: xs) = Fn.flattenValue x ++ Fn.flattenList xs := by
  rw [Fn.flattenList]

/-- evaluation of an argument list, left to right, stopping at the first raised exception. -/
theorem term_evalList (env : Env) (e : Expr) (es : List Expr) (log : Log) :
    evalList env (e :: es) log =
      match evalExpr env e log with
      | (.error x, log1) => (.error x, log1)
      | (.ok v, log1) =>
        match evalList env es log1 with
        | (.error x, log2) => (.error x, log2)
        | (.ok vs, log2) => (.ok (v :: vs), log2) := by
  rw [evalList]
  rcases evalExpr env e log with ⟨_ | v, l1⟩
  · rfl
  · simp only
    rcases evalList env es l1 with ⟨_ | vs, l2⟩ <;> rfl

/-- delivery of an event to the snapshot of its listeners, one after the other. -/
theorem term_deliver (fuel : Nat) (sc : Emitter.Scripts) (depth : Nat) (σ : Emitter.State) (n : Emitter.Name)
    (arg : Nat) (l : Emitter.Listener) (ls : List Emitter.Listener) :
    Emitter.deliver fuel sc depth σ n arg (l :: ls) =
      (let (σ1, l1) := Emitter.call fuel sc depth σ n arg l
       let (σ2, l2) := Emitter.deliver fuel sc depth σ1 n arg ls
       (σ2, l1 ++ l2)) := by
  rw [Emitter.deliver]

/-- `parse` is a total function of the formula and the environment: for every input there is
    a record and an event log, and the record is well formed. -/
theorem parseTop_total (env : Env) (s : List Char) :
    ∃ r log, parseTop env s = (r, log) ∧ WellFormed r :=
  ⟨(parseTop env s).1, (parseTop env s).2, rfl, parseTop_wellformed env s⟩

/-! ## non-vacuity: concrete records -/

example : (parseTop Env.empty "SUM(1,2)=3".toList).1.error = none := by decide +kernel
example : (parseTop Env.empty "IF(TRUE,\"x\",2)".toList).1.error = none := by decide +kernel
example : (parseTop Env.empty "1+".toList).1.error = some .error := by decide +kernel
example : (parseTop Env.empty "1+§".toList).1.error = some .name := by decide +kernel
example : (parseTop Env.empty "#DIV/0!".toList).1.error = some .div0 := by decide +kernel
example : (parseTop Env.empty "NA()".toList).1.error = some .na := by decide +kernel
example : (parseTop Env.empty "A1".toList).1.result = none ∧ (parseTop Env.empty "A1".toList).1.error = none := by decide +kernel
example : (parseTop Env.empty "#N/A".toList).1.error = some .na := by decide +kernel
example : (parseTop Env.empty "NOSUCH(1)".toList).1.error = some .name := by decide +kernel
example : (parseTop { Env.empty with custom := fun _ => some (fun _ => .error (.py "#WEIRD")) } "F()".toList).1.error
    = some .error := by decide +kernel
example : WellFormed (parseTop Env.empty "SUM(1,{2,3})+((".toList).1 := parseTop_wellformed _ _

end HotXL.Props.C01
