/-
  C16 — real-valued math and PV return the mathematically defined value or an error.

  All theorems are about the GENERIC definitions of `HotXL/Model/Fn/Math.lean` and
  `HotXL/Model/Fn/Fin.lean` (the functions as mathtrig.py / financial.py compose them),
  instantiated at the real numbers (`HotXL.RealOps.realOps`: Mathlib's `Real.sin`, `Real.log`, …
  on their mathematical domains).  The same definitions instantiated at IEEE doubles
  (`floatOps`) are what the driver runs and the harness compares with the implementation.

  Layers: (L1) dispatch / coercion / domain: `domain_*`, `coercion_*`; (L2) identities among the
  functions as composed: `sin_sq_add_cos_sq` … `atan2_angle`, `pv_annuity`; (L3) "within
  floating-point rounding" is NOT claimed here: that libm approximates these real functions is
  the trusted base (monitored by the harness against an independent 60-digit reference).

  The integer-overflow guard of POWER and PV (`intPowGuard`, `pvGuard`: two Python ints whose exact
  power has at least 1025 bits give `#NUM!` at once) does not depend on the number type: the
  theorems `power_guard_*`, `pv_guard_*` hold for every instance, `power_num_iff_guard` /
  `pv_coercion` say how it sits in front of the real-valued functions.  Termination: every model
  function is a total Lean definition, so "the model returns" holds by construction; what the
  guard is about is the SIZE of Python's exact integer `number ** power` (POWER(2,10^15) did not
  return): `power_below_guard_bounded` bounds it by 2^2048 wherever the guard does not fire.
-/
import HotXL.Lemmas.RealOps
import HotXL.Lemmas.PowGuard

namespace HotXL.Props.C16
open HotXL HotXL.Ops HotXL.Fn HotXL.Fn.Math HotXL.Fn.Fin HotXL.RealOps HotXL.Lemmas.PowGuard

-- `2 ^ 1024`, `2 ^ 2048` appear as literals in the statements about the integer-overflow guard
set_option exponentiation.threshold 2100

deriving instance DecidableEq for HotXL.Ops.ToNum

/-! ## L1 — domains: each function yields a number exactly on its mathematical domain -/

/-- SQRT yields a number exactly for `x ≥ 0` -/
theorem domain_sqrt (x : ℝ) : (realOps.sqrt x).isSome ↔ 0 ≤ x := by
  rw [sqrt_eq]; split <;> simp_all

/-- LN yields a number exactly for `x > 0` -/
theorem domain_ln (x : ℝ) : (realOps.log x).isSome ↔ 0 < x := by
  rw [log_eq]; split <;> simp_all

/-- ASIN yields a number exactly for `|x| ≤ 1` -/
theorem domain_asin (x : ℝ) : (realOps.asin x).isSome ↔ |x| ≤ 1 := by
  rw [asin_eq]; split <;> simp_all

/-- ACOS yields a number exactly for `|x| ≤ 1` -/
theorem domain_acos (x : ℝ) : (realOps.acos x).isSome ↔ |x| ≤ 1 := by
  rw [acos_eq]; split <;> simp_all

/-- ACOSH yields a number exactly for `x ≥ 1` -/
theorem domain_acosh (x : ℝ) : (realOps.acosh x).isSome ↔ 1 ≤ x := by
  rw [acosh_eq]; split <;> simp_all

/-- ATANH yields a number exactly for `|x| < 1` -/
theorem domain_atanh (x : ℝ) : (realOps.atanh x).isSome ↔ |x| < 1 := by
  rw [atanh_eq]; split <;> simp_all

/-- TAN yields a number exactly where the cosine does not vanish -/
theorem domain_tan (x : ℝ) : (realOps.tan x).isSome ↔ Real.cos x ≠ 0 := by
  rw [tan_eq]; split <;> simp_all

/-- SIN, COS, ATAN, SINH, COSH, TANH, ASINH, ABS, EXP are defined for every real argument -/
theorem domain_total (x : ℝ) :
    (realOps.sin x).isSome ∧ (realOps.cos x).isSome ∧ (realOps.atan x).isSome ∧
    (realOps.sinh x).isSome ∧ (realOps.cosh x).isSome ∧ (realOps.tanh x).isSome ∧
    (realOps.asinh x).isSome ∧ (expE realOps x).isSome := by
  simp [expE, rpow?, Real.exp_pos]

/-- EXP (`math.e ** x`) is the exponential function -/
theorem exp_value (x : ℝ) : expE realOps x = some (Real.exp x) := by
  simp [expE, rpow?, Real.exp_pos, Real.exp_one_rpow]

/-- COT (`cos/sin`) yields a number exactly where the sine does not vanish, and then `cos x / sin x` -/
theorem domain_cot (x : ℝ) : (cot realOps x).isSome ↔ Real.sin x ≠ 0 := by
  by_cases h : Real.sin x = 0 <;> simp [cot, h]

/-- ACOT is defined everywhere: `π/2` at 0 and `arctan (1/x)` elsewhere -/
theorem acot_value (x : ℝ) :
    acot realOps x = some (if x = 0 then Real.pi / 2 else Real.arctan (1 / x)) := by
  by_cases h : x = 0 <;> simp [acot, h]

/-- ACOTH (`½·log((x+1)/(x−1))`) yields a number exactly for `|x| > 1` -/
theorem domain_acoth (x : ℝ) : (acoth realOps x).isSome ↔ 1 < |x| := by
  by_cases h1 : x - 1 = 0
  · have hx : x = 1 := by linarith
    simp [acoth, hx]
  · have hne : x ≠ 1 := fun h => h1 (by linarith)
    by_cases hp : 0 < (x + 1) / (x - 1)
    · simp only [acoth, add_eq, sub_eq, ofRat_eq, Rat.cast_one, div_eq, h1, if_false, Option.bind_eq_bind,
        Option.bind_some, log_eq, hp, if_true, Option.pure_def, Option.isSome_some, true_iff]
      rcases div_pos_iff.mp hp with ⟨h2, h3⟩ | ⟨h2, h3⟩
      · exact lt_abs.mpr (Or.inl (by linarith))
      · exact lt_abs.mpr (Or.inr (by linarith))
    · simp only [acoth, add_eq, sub_eq, ofRat_eq, Rat.cast_one, div_eq, h1, if_false, Option.bind_eq_bind,
        Option.bind_some, log_eq, hp, Option.bind_none, Option.isSome_none, Bool.false_eq_true, false_iff, not_lt]
      by_contra hc
      rw [not_le] at hc
      apply hp
      rcases lt_abs.mp hc with h | h
      · exact div_pos (by linarith) (by linarith)
      · exact div_pos_of_neg_of_neg (by linarith) (by linarith)

/-- LOG yields a number exactly for `x > 0`, `b > 0`, `b ≠ 1` -/
theorem domain_log (x b : ℝ) : (logB realOps x b).isSome ↔ 0 < x ∧ 0 < b ∧ b ≠ 1 := by
  by_cases hx : 0 < x
  · by_cases hb : 0 < b
    · have hlog : Real.log b = 0 ↔ b = 1 := by
        constructor
        · intro h
          exact Real.eq_one_of_pos_of_log_eq_zero hb h
        · rintro rfl
          exact Real.log_one
      by_cases h1 : b = 1
      · simp [logB, hx, h1]
      · have : Real.log b ≠ 0 := fun h => h1 (hlog.mp h)
        simp [logB, hx, hb, h1, this]
    · simp [logB, hx, hb]
  · simp [logB, hx]

/-- RADIANS and DEGREES are defined for every real argument: `x·π/180` and `x·180/π` -/
theorem radians_degrees_value (x : ℝ) :
    radians realOps x = some (x * (Real.pi / 180)) ∧ degrees realOps x = some (x * 180 / Real.pi) := by
  simp [radians, degrees, Real.pi_ne_zero]

/-- POWER yields a number exactly where the real power exists: positive base, zero base with a
    non-negative exponent, negative base with an integer exponent; it never yields `#NUM!` -/
theorem domain_power (x y : ℝ) :
    (∃ r, power realOps x y = .ok r) ↔ (0 < x ∨ (x = 0 ∧ 0 ≤ y) ∨ (x < 0 ∧ ∃ k : ℤ, y = k)) := by
  unfold power
  rw [pow_eq]
  unfold rpow?
  by_cases h1 : 0 < x
  · simp [h1]
  · by_cases h2 : x = 0
    · subst h2
      by_cases h3 : 0 < y
      · simp [h3, le_of_lt h3]
      · by_cases h4 : y = 0
        · simp [h4]
        · have : ¬ 0 ≤ y := fun h => h3 (lt_of_le_of_ne h (Ne.symm h4))
          simp [h3, h4, this]
    · have hneg : x < 0 := lt_of_le_of_ne (not_lt.mp h1) h2
      by_cases h5 : (⌊y⌋ : ℝ) = y
      · simp only [h1, h2, h5, if_false, if_true, isNaN_eq, Bool.false_eq_true, Except.ok.injEq, exists_eq',
          false_or, hneg, true_and, true_iff, false_and]
        exact ⟨⌊y⌋, h5.symm⟩
      · have : ¬ ∃ k : ℤ, y = k := by
          rintro ⟨k, rfl⟩
          exact h5 (by simp)
        simp [h1, h2, h5, this]

/-- POWER with a positive base is the real power `x ^ y` -/
theorem power_value (x y : ℝ) (hx : 0 < x) : power realOps x y = .ok (x ^ y) := by
  simp [power, rpow?, hx]

example : power realOps 2 3 = .ok ((2 : ℝ) ^ (3 : ℝ)) := power_value 2 3 (by norm_num)

/-- ATAN2 is `#DIV/0!` exactly at the origin (and a number everywhere else) -/
theorem atan2_div0_iff_origin (x y : ℝ) : atan2' realOps x y = .error .div0 ↔ x = 0 ∧ y = 0 := by
  by_cases hx : x = 0 <;> by_cases hy : y = 0 <;> simp [atan2', lift, hx, hy]

/-- away from the origin ATAN2(x, y) is a number: the argument of the point `(x, y)` in `(−π, π]` -/
theorem atan2_value (x y : ℝ) (h : ¬ (x = 0 ∧ y = 0)) :
    atan2' realOps x y = .ok (Complex.arg ⟨x, y⟩) ∧
    Complex.arg ⟨x, y⟩ ∈ Set.Ioc (-Real.pi) Real.pi := by
  refine ⟨?_, Complex.arg_mem_Ioc _⟩
  by_cases hx : x = 0 <;> by_cases hy : y = 0 <;> simp_all [atan2', lift]

example : ¬ ((1 : ℝ) = 0 ∧ (0 : ℝ) = 0) := by norm_num

/-! ## L1 — coercion: numbers, numeric text and logicals are numbers; other text is `#VALUE!` -/

/-- every one-argument function is `parse_number` followed by the function on the real number:
    an error argument is passed through, anything that is not a number is `#VALUE!`, a raising
    library call is `#ERROR!` -/
theorem coercion_unary (f : ℝ → Option ℝ) (v : Value) :
    un realOps f [v] = match parseNumber v with
      | .error e => .error e
      | .ok n => lift (f ((Num.toRat n : ℚ) : ℝ)) := by
  simp only [un]
  cases h : parseNumber v with
  | error e => rfl
  | ok n => simp only [ofNum_real]

/-- text that does not spell a number gives `#VALUE!` -/
theorem coercion_text (f : ℝ → Option ℝ) (s : List Char) (h : ∀ n, toNumberText s ≠ .num n) :
    un realOps f [.str s] = .error .value := by
  rw [coercion_unary]
  cases hs : toNumberText s with
  | num n => exact absurd hs (h n)
  | text => simp only [parseNumber, toNumber, hs]

example : ∀ n, toNumberText "abc".toList ≠ .num n := by
  intro n h
  have : toNumberText "abc".toList = .text := by decide +kernel
  rw [this] at h
  cases h

/-- numeric text is the number it spells -/
theorem coercion_numeric_text (f : ℝ → Option ℝ) (s : List Char) (n : Num) (h : toNumberText s = .num n) :
    un realOps f [.str s] = lift (f ((Num.toRat n : ℚ) : ℝ)) := by
  rw [coercion_unary]
  simp only [parseNumber, toNumber, h]

example : toNumberText "0.5".toList = .num (.flt (1 / 2)) := by decide +kernel

/-- the logicals are the numbers 1 and 0 -/
theorem coercion_logical (f : ℝ → Option ℝ) (b : Bool) :
    un realOps f [.bool b] = lift (f (if b then 1 else 0)) := by
  rw [coercion_unary]
  cases b <;> simp [parseNumber, toNumber, Num.toRat]

/-- a number is passed as it is; an error value is returned unchanged; a blank is `#VALUE!` -/
theorem coercion_number_error_blank (f : ℝ → Option ℝ) (n : Num) (e : Err) :
    un realOps f [.num n] = lift (f ((Num.toRat n : ℚ) : ℝ)) ∧
    un realOps f [.err e] = .error e ∧ un realOps f [.blank] = .error .value := by
  refine ⟨?_, ?_, ?_⟩ <;> rw [coercion_unary] <;> rfl

/-- the registered one-argument functions are exactly this coercion in front of the functions above -/
theorem dispatch_unary :
    SQRT realOps = un realOps realOps.sqrt ∧ LN realOps = un realOps realOps.log ∧
    EXP realOps = un realOps (expE realOps) ∧ SIN realOps = un realOps realOps.sin ∧
    COS realOps = un realOps realOps.cos ∧ TAN realOps = un realOps realOps.tan ∧
    COT realOps = un realOps (cot realOps) ∧ ASIN realOps = un realOps realOps.asin ∧
    ACOS realOps = un realOps realOps.acos ∧ ATAN realOps = un realOps realOps.atan ∧
    ACOT realOps = un realOps (acot realOps) ∧ SINH realOps = un realOps realOps.sinh ∧
    COSH realOps = un realOps realOps.cosh ∧ TANH realOps = un realOps realOps.tanh ∧
    ASINH realOps = un realOps realOps.asinh ∧ ACOSH realOps = un realOps realOps.acosh ∧
    ATANH realOps = un realOps realOps.atanh ∧ ACOTH realOps = un realOps (acoth realOps) ∧
    RADIANS realOps = un realOps (radians realOps) ∧ DEGREES realOps = un realOps (degrees realOps) :=
  ⟨rfl, rfl, rfl, rfl, rfl, rfl, rfl, rfl, rfl, rfl, rfl, rfl, rfl, rfl, rfl, rfl, rfl, rfl, rfl, rfl⟩

/-- LOG, POWER (and PV, below): two parsed numbers go to the function on reals; if either argument
    is not a number (or is an error value) the result is `#VALUE!` -/
theorem coercion_binary (f : ℝ → ℝ → Except Err ℝ) (a b : Value) :
    bin realOps f a b = match parseNumber a, parseNumber b with
      | .ok m, .ok n => f ((Num.toRat m : ℚ) : ℝ) ((Num.toRat n : ℚ) : ℝ)
      | _, _ => .error .value := by
  simp only [bin]
  cases parseNumber a <;> cases parseNumber b <;> simp only [ofNum_real]

/-- ATAN2: the first argument's error is returned first, then the second's; two numbers go to `atan2'` -/
theorem coercion_atan2 (a b : Value) :
    ATAN2 realOps [a, b] = match parseNumber a with
      | .error e => .error e
      | .ok m => match parseNumber b with
        | .error e => .error e
        | .ok n => atan2' realOps ((Num.toRat m : ℚ) : ℝ) ((Num.toRat n : ℚ) : ℝ) := by
  simp only [ATAN2]
  cases parseNumber a <;> cases parseNumber b <;> simp only [ofNum_real]

/-- LOG with one argument and LOG10 use base 10 -/
theorem log_default_base (a : Value) :
    LOG realOps [a] = LOG realOps [a, .num (.int 10)] ∧ LOG10 realOps [a] = LOG realOps [a, .num (.int 10)] :=
  ⟨rfl, rfl⟩

/-! ## L2 — the defining identities -/

/-- sin² + cos² = 1 -/
theorem sin_sq_add_cos_sq (x s c : ℝ) (hs : realOps.sin x = some s) (hc : realOps.cos x = some c) :
    s * s + c * c = 1 := by
  simp only [sin_eq, cos_eq, Option.some.injEq] at hs hc
  subst hs hc
  have := Real.sin_sq_add_cos_sq x
  nlinarith [this]

/-- TAN = SIN / COS wherever TAN is defined -/
theorem tan_eq_sin_div_cos (x t s c : ℝ) (ht : realOps.tan x = some t) (hs : realOps.sin x = some s)
    (hc : realOps.cos x = some c) : t = s / c := by
  rw [tan_eq] at ht
  split at ht
  · cases ht
  · simp only [sin_eq, cos_eq, Option.some.injEq] at hs hc ht
    subst hs hc ht
    exact Real.tan_eq_sin_div_cos x

example : realOps.tan 0 = some 0 := by simp

/-- COT = 1 / TAN wherever both are defined -/
theorem cot_eq_inv_tan (x k t : ℝ) (hk : cot realOps x = some k) (ht : realOps.tan x = some t) :
    k = 1 / t := by
  rw [tan_eq] at ht
  split at ht
  · cases ht
  · rename_i hc
    by_cases hs : Real.sin x = 0
    · simp [cot, hs] at hk
    · simp only [cot, cos_eq, sin_eq, div_eq, hs, if_false, Option.bind_eq_bind, Option.bind_some,
        Option.some.injEq] at hk ht
      subst hk ht
      rw [Real.tan_eq_sin_div_cos]
      field_simp

example : cot realOps 1 = some (Real.cos 1 / Real.sin 1) := by
  have h : Real.sin 1 ≠ 0 := ne_of_gt (Real.sin_pos_of_pos_of_lt_pi one_pos (by linarith [Real.two_le_pi]))
  simp [cot, h]

/-- EXP (LN x) = x for `x > 0` -/
theorem exp_ln (x : ℝ) (hx : 0 < x) : (realOps.log x).bind (expE realOps) = some x := by
  simp [hx, exp_value, Real.exp_log hx]

example : (realOps.log 2).bind (expE realOps) = some 2 := exp_ln 2 (by norm_num)

/-- LN (EXP x) = x -/
theorem ln_exp (x : ℝ) : (expE realOps x).bind realOps.log = some x := by
  simp [exp_value, Real.exp_pos]

/-- LOG(x, b) = LN x / LN b, and it is the exponent: `b ^ LOG(x, b) = x` -/
theorem log_base (x b r : ℝ) (h : logB realOps x b = some r) :
    (∃ lx lb, realOps.log x = some lx ∧ realOps.log b = some lb ∧ r = lx / lb) ∧ b ^ r = x := by
  have hd := (domain_log x b).mp (by rw [h]; rfl)
  obtain ⟨hx, hb, h1⟩ := hd
  have hlb : Real.log b ≠ 0 := by
    intro h0
    exact h1 (Real.eq_one_of_pos_of_log_eq_zero hb h0)
  simp only [logB, log_eq, hx, hb, if_true, Option.bind_eq_bind, Option.bind_some, div_eq, hlb, if_false,
    Option.some.injEq] at h
  subst h
  refine ⟨⟨Real.log x, Real.log b, by simp [hx], by simp [hb], rfl⟩, ?_⟩
  rw [Real.log_div_log]
  exact Real.rpow_logb hb h1 hx

example : (logB realOps 8 2).isSome := (domain_log 8 2).mpr ⟨by norm_num, by norm_num, by norm_num⟩

/-- SIN (ASIN y) = y on `[-1, 1]` -/
theorem sin_asin (y a : ℝ) (h : realOps.asin y = some a) : realOps.sin a = some y := by
  rw [asin_eq] at h
  split at h
  · rename_i hy
    cases h
    rw [sin_eq, Real.sin_arcsin (neg_le_of_abs_le hy) (le_of_abs_le hy)]
  · cases h

/-- COS (ACOS y) = y on `[-1, 1]` -/
theorem cos_acos (y a : ℝ) (h : realOps.acos y = some a) : realOps.cos a = some y := by
  rw [acos_eq] at h
  split at h
  · rename_i hy
    cases h
    rw [cos_eq, Real.cos_arccos (neg_le_of_abs_le hy) (le_of_abs_le hy)]
  · cases h

example : realOps.asin (1 / 2) = some (Real.arcsin (1 / 2)) := by
  rw [asin_eq, if_pos]
  rw [abs_le]; constructor <;> norm_num

/-- TAN (ATAN y) = y for every real y -/
theorem tan_atan (y : ℝ) : (realOps.atan y).bind realOps.tan = some y := by
  have : Real.cos (Real.arctan y) ≠ 0 := ne_of_gt (Real.cos_arctan_pos y)
  simp [this, Real.tan_arctan]

/-- SINH (ASINH y) = y for every real y -/
theorem sinh_asinh (y : ℝ) : (realOps.asinh y).bind realOps.sinh = some y := by
  simp [Real.sinh_arsinh]

/-- COSH (ACOSH x) = x for `x ≥ 1` -/
theorem cosh_acosh (x a : ℝ) (h : realOps.acosh x = some a) : realOps.cosh a = some x := by
  rw [acosh_eq] at h
  split at h
  · rename_i hx
    cases h
    rw [cosh_eq, Real.cosh_arcosh hx]
  · cases h

example : realOps.acosh 2 = some (Real.arcosh 2) := by simp

/-- TANH (ATANH y) = y for `|y| < 1` -/
theorem tanh_atanh (y a : ℝ) (h : realOps.atanh y = some a) : realOps.tanh a = some y := by
  rw [atanh_eq] at h
  split at h
  · rename_i hy
    cases h
    rw [tanh_eq, Real.tanh_artanh ⟨neg_lt_of_abs_lt hy, lt_of_abs_lt hy⟩]
  · cases h

example : realOps.atanh (1 / 2) = some (Real.artanh (1 / 2)) := by
  rw [atanh_eq, if_pos]
  rw [abs_lt]; constructor <;> norm_num

/-- COT (ACOT x) = x for every real x (at 0: `cot (π/2) = 0`) -/
theorem cot_acot (x : ℝ) : (acot realOps x).bind (cot realOps) = some x := by
  rw [acot_value]
  by_cases h : x = 0
  · simp [h, cot]
  · have hc : Real.cos (Real.arctan (1 / x)) ≠ 0 := ne_of_gt (Real.cos_arctan_pos _)
    have ht : Real.tan (Real.arctan (1 / x)) = 1 / x := Real.tan_arctan _
    have hs : Real.sin (Real.arctan (1 / x)) ≠ 0 := by
      intro h0
      rw [Real.tan_eq_sin_div_cos, h0, zero_div] at ht
      have : (1 : ℝ) / x ≠ 0 := one_div_ne_zero h
      exact this ht.symm
    simp only [h, if_false, Option.bind_some, cot, cos_eq, sin_eq, Option.bind_eq_bind, div_eq, hs,
      Option.some.injEq]
    rw [Real.tan_eq_sin_div_cos] at ht
    field_simp at ht ⊢
    linarith

/-- the inverse law of ACOTH: `tanh (ACOTH x) = 1/x` for `|x| > 1` -/
theorem tanh_acoth (x a : ℝ) (h : acoth realOps x = some a) : realOps.tanh a = some (1 / x) := by
  have hd := (domain_acoth x).mp (by rw [h]; rfl)
  have hx0 : x ≠ 0 := by
    intro h0
    rw [h0, abs_zero] at hd
    linarith
  have h1 : x - 1 ≠ 0 := by
    intro h1
    have : x = 1 := by linarith
    rw [this, abs_one] at hd
    exact lt_irrefl _ hd
  have hinv : |1 / x| < 1 := by
    rw [abs_div, abs_one, div_lt_one (by linarith)]
    exact hd
  have hmem : (1 / x) ∈ Set.Ioo (-1 : ℝ) 1 := ⟨neg_lt_of_abs_lt hinv, lt_of_abs_lt hinv⟩
  have hp : 0 < (x + 1) / (x - 1) := by
    rcases lt_abs.mp hd with h | h
    · exact div_pos (by linarith) (by linarith)
    · exact div_pos_of_neg_of_neg (by linarith) (by linarith)
  simp only [acoth, add_eq, sub_eq, ofRat_eq, Rat.cast_one, div_eq, h1, if_false, Option.bind_eq_bind,
    Option.bind_some, log_eq, hp, if_true, Option.pure_def, mul_eq, Option.some.injEq] at h
  subst h
  have hart : Real.artanh (1 / x) = 1 / 2 * Real.log ((x + 1) / (x - 1)) := by
    rw [Real.artanh_eq_half_log ⟨le_of_lt hmem.1, le_of_lt hmem.2⟩]
    congr 2
    field_simp
  rw [tanh_eq]
  congr 1
  have : ((1 / 2 : ℚ) : ℝ) = 1 / 2 := by norm_num
  rw [this, ← hart]
  exact Real.tanh_artanh hmem

example : (acoth realOps 2).isSome := (domain_acoth 2).mpr (by norm_num)

/-- each inverse undoes its function on the principal range: ASIN∘SIN on `[-π/2, π/2]`, ACOS∘COS on
    `[0, π]`, ATAN∘TAN on `(-π/2, π/2)`, ASINH∘SINH everywhere, ACOSH∘COSH on `[0, ∞)`, ATANH∘TANH everywhere -/
theorem inverse_undoes (x : ℝ) :
    (-(Real.pi / 2) ≤ x → x ≤ Real.pi / 2 → (realOps.sin x).bind realOps.asin = some x) ∧
    (0 ≤ x → x ≤ Real.pi → (realOps.cos x).bind realOps.acos = some x) ∧
    (-(Real.pi / 2) < x → x < Real.pi / 2 → (realOps.tan x).bind realOps.atan = some x) ∧
    ((realOps.sinh x).bind realOps.asinh = some x) ∧
    (0 ≤ x → (realOps.cosh x).bind realOps.acosh = some x) ∧
    ((realOps.tanh x).bind realOps.atanh = some x) := by
  refine ⟨?_, ?_, ?_, ?_, ?_, ?_⟩
  · intro h1 h2
    simp [Real.abs_sin_le_one, Real.arcsin_sin h1 h2]
  · intro h1 h2
    simp [Real.abs_cos_le_one, Real.arccos_cos h1 h2]
  · intro h1 h2
    have : Real.cos x ≠ 0 := ne_of_gt (Real.cos_pos_of_mem_Ioo ⟨h1, h2⟩)
    simp [this, Real.arctan_tan h1 h2]
  · simp [Real.arsinh_sinh]
  · intro h
    simp [Real.one_le_cosh, Real.arcosh_cosh h]
  · have : |Real.tanh x| < 1 := by
      rw [abs_lt]
      exact ⟨Real.neg_one_lt_tanh x, Real.tanh_lt_one x⟩
    simp [this, Real.artanh_tanh]

example : -(Real.pi / 2) ≤ (0 : ℝ) ∧ (0 : ℝ) ≤ Real.pi / 2 := by
  constructor <;> linarith [Real.pi_pos]

/-- DEGREES (RADIANS x) = x and RADIANS (DEGREES x) = x -/
theorem degrees_radians (x : ℝ) :
    (radians realOps x).bind (degrees realOps) = some x ∧ (degrees realOps x).bind (radians realOps) = some x := by
  have := Real.pi_ne_zero
  constructor <;> simp [radians, degrees, Real.pi_ne_zero] <;> field_simp

/-- ATAN2(x, y) is the angle of the point `(x, y)`: `(cos θ, sin θ) = (x, y) / ‖(x, y)‖` -/
theorem atan2_angle (x y θ : ℝ) (h : atan2' realOps x y = .ok θ) :
    Real.cos θ = x / Real.sqrt (x ^ 2 + y ^ 2) ∧ Real.sin θ = y / Real.sqrt (x ^ 2 + y ^ 2) := by
  have horig : ¬ (x = 0 ∧ y = 0) := by
    intro h0
    rw [(atan2_div0_iff_origin x y).mpr h0] at h
    cases h
  have hv := (atan2_value x y horig).1
  rw [hv] at h
  cases h
  have hz : (⟨x, y⟩ : ℂ) ≠ 0 := by
    intro h0
    apply horig
    exact ⟨congrArg Complex.re h0, congrArg Complex.im h0⟩
  have hn : ‖(⟨x, y⟩ : ℂ)‖ = Real.sqrt (x ^ 2 + y ^ 2) := by
    rw [Complex.norm_def, Complex.normSq_mk]
    congr 1
    ring
  rw [Complex.cos_arg hz, Complex.sin_arg, hn]
  exact ⟨rfl, rfl⟩

example : atan2' realOps 1 0 = .ok (Complex.arg ⟨1, 0⟩) := (atan2_value 1 0 (by norm_num)).1

/-! ## PV -/

/-- PV satisfies the annuity equation `pv·R + pmt·(1 + r·type)·(R − 1)/r + fv = 0`, `R = (1+r)^n`, for
    whatever value `R` the power `(1 + rate) ** periods` has, at every non-zero rate -/
theorem pv_annuity_general (r n pmt fv ty v : ℝ) (hr : r ≠ 0)
    (h : pv realOps r n pmt fv ty = some v) :
    ∃ R, realOps.pow (1 + r) n = some R ∧
      v * R + pmt * (1 + r * ty) * (R - 1) / r + fv = 0 := by
  unfold pv at h
  simp only [isZero_eq, hr, decide_false, Bool.false_eq_true, if_false, ofRat_eq, Rat.cast_one, add_eq,
    Option.bind_eq_bind] at h
  rw [pow_eq]
  cases hR : rpow? (1 + r) n with
  | none => simp [hR] at h
  | some R =>
    refine ⟨R, rfl, ?_⟩
    rw [pow_eq, hR] at h
    simp only [Option.bind_some, sub_eq, div_eq, hr, if_false, mul_eq] at h
    split at h
    · cases h
    · rename_i hR0
      cases h
      exact annuity_identity r R pmt fv ty hr hR0

/-- PV with `rate > −1`, `rate ≠ 0` and ANY real number of periods is defined and satisfies the
    annuity equation `pv·(1+r)^n + pmt·(1 + r·type)·((1+r)^n − 1)/r + fv = 0` -/
theorem pv_annuity (r n pmt fv ty : ℝ) (hr : r ≠ 0) (h1 : 0 < 1 + r) :
    ∃ v, pv realOps r n pmt fv ty = some v ∧
      v * (1 + r) ^ n + pmt * (1 + r * ty) * ((1 + r) ^ n - 1) / r + fv = 0 := by
  have hR : realOps.pow (1 + r) n = some ((1 + r) ^ n) := by simp [rpow?, h1]
  have hR0 : (1 + r) ^ n ≠ 0 := ne_of_gt (Real.rpow_pos_of_pos h1 n)
  refine ⟨(((1 - (1 + r) ^ n) / r) * pmt * (1 + r * ty) - fv) / (1 + r) ^ n, ?_, ?_⟩
  · unfold pv
    simp only [isZero_eq, hr, decide_false, Bool.false_eq_true, if_false, ofRat_eq, Rat.cast_one, add_eq, hR,
      Option.bind_eq_bind, Option.bind_some, sub_eq, div_eq, mul_eq, hR0]
  · exact annuity_identity r ((1 + r) ^ n) pmt fv ty hr hR0

example : ∃ v, pv realOps (1 / 20) 10 (-100) 0 1 = some v := by
  obtain ⟨v, hv, _⟩ := pv_annuity (1 / 20) 10 (-100) 0 1 (by norm_num) (by norm_num)
  exact ⟨v, hv⟩

/-- PV with an INTEGER number of periods and `1 + rate < 0` as well (`rate ≠ 0`): the same equation
    with the integer power -/
theorem pv_annuity_int (r pmt fv ty : ℝ) (k : ℤ) (hr : r ≠ 0) (h1 : 1 + r ≠ 0) :
    ∃ v, pv realOps r (k : ℝ) pmt fv ty = some v ∧
      v * (1 + r) ^ k + pmt * (1 + r * ty) * ((1 + r) ^ k - 1) / r + fv = 0 := by
  have hR : realOps.pow (1 + r) (k : ℝ) = some ((1 + r) ^ k) := by
    rw [pow_eq]
    unfold rpow?
    by_cases hp : 0 < 1 + r
    · simp [hp, Real.rpow_intCast]
    · simp [hp, h1]
  have hR0 : (1 + r) ^ k ≠ 0 := zpow_ne_zero k h1
  refine ⟨(((1 - (1 + r) ^ k) / r) * pmt * (1 + r * ty) - fv) / (1 + r) ^ k, ?_, ?_⟩
  · unfold pv
    simp only [isZero_eq, hr, decide_false, Bool.false_eq_true, if_false, ofRat_eq, Rat.cast_one, add_eq, hR,
      Option.bind_eq_bind, Option.bind_some, sub_eq, div_eq, mul_eq, hR0]
  · exact annuity_identity r ((1 + r) ^ k) pmt fv ty hr hR0

example : ∃ v, pv realOps (-3) ((2 : ℤ) : ℝ) 5 1 0 = some v := by
  obtain ⟨v, hv, _⟩ := pv_annuity_int (-3) 5 1 0 2 (by norm_num) (by norm_num)
  exact ⟨v, hv⟩

/-- the linear form at `rate = 0`: `pv + pmt·n + fv = 0` -/
theorem pv_linear (n pmt fv ty : ℝ) :
    ∃ v, pv realOps 0 n pmt fv ty = some v ∧ v + pmt * n + fv = 0 := by
  refine ⟨-pmt * n - fv, ?_, by ring⟩
  simp [pv]

/-- PV's dispatch: the two optional arguments default to 0, all five are coerced like every other
    numeric argument and any non-number among them gives `#VALUE!`; then the integer-overflow guard
    on the growth factor (`pvGuard`: `1 + rate` and `periods` both Python ints with
    `(1 + rate) ** periods` of at least 1025 bits) gives `#NUM!`, and everything else goes to the
    closed form `pv` on reals -/
theorem pv_coercion (r n p f t : Value) :
    PV realOps [r, n, p] = PV realOps [r, n, p, .num (.int 0), .num (.int 0)] ∧
    PV realOps [r, n, p, f] = PV realOps [r, n, p, f, .num (.int 0)] ∧
    PV realOps [r, n, p, f, t] =
      match parseNumber r, parseNumber n, parseNumber p, parseNumber (PV.dflt f), parseNumber (PV.dflt t) with
      | .ok r, .ok n, .ok p, .ok f, .ok t =>
        if pvGuard r n then .error .num else
        lift (pv realOps ((Num.toRat r : ℚ) : ℝ) ((Num.toRat n : ℚ) : ℝ) ((Num.toRat p : ℚ) : ℝ)
          ((Num.toRat f : ℚ) : ℝ) ((Num.toRat t : ℚ) : ℝ))
      | _, _, _, _, _ => .error .value := by
  refine ⟨rfl, rfl, ?_⟩
  simp only [PV, PV.go]
  cases parseNumber r <;> cases parseNumber n <;> cases parseNumber p <;> cases parseNumber (PV.dflt f) <;>
    cases parseNumber (PV.dflt t) <;> simp [ofNum_real]

/-- PV's guard, for every number type: an integer rate and an integer number of periods with
    `|1 + rate| ≥ 2`, `periods ≥ 1` and `(bit_length(|1 + rate|) − 1) · periods ≥ 1024` give `#NUM!`
    whatever the other arguments (numbers) are — and then the exact growth factor
    `(1 + rate) ^ periods` is indeed at least `2 ^ 1024` in magnitude, beyond every double -/
theorem pv_guard_num {α : Type} (O : ElemOps α) (r n : Int) (p f t : Num)
    (h : 1 < (1 + r).natAbs ∧ 0 < n ∧ (1024 : Int) ≤ ((bitLength (1 + r) : Int) - 1) * n) :
    PV O [.num (.int r), .num (.int n), .num p, .num f, .num t] = .error .num ∧
    PV O [.num (.int r), .num (.int n), .num p] = .error .num ∧
    2 ^ 1024 ≤ ((1 + r) ^ n.toNat).natAbs := by
  have hg : pvGuard (.int r) (.int n) = true := by rw [pvGuard_int]; exact (intPowGuard_iff _ _).mpr h
  refine ⟨?_, ?_, intPowGuard_sound _ _ (by rw [← pvGuard_int]; exact hg)⟩
  · simp only [PV, PV.go, PV.dflt, parseNumber, toNumber, hg, if_true]
  · simp only [PV, PV.go, PV.dflt, parseNumber, toNumber, hg, if_true]

example := pv_guard_num realOps 1 1024 (.int (-100)) (.int 0) (.int 0) (by decide +kernel)
example := pv_guard_num floatOps 35 (10 ^ 15) (.int 1) (.int 0) (.int 0) (by decide +kernel)

/-- the guard of PV fires for integers only and never at rate 0 (nor at rate −1, −2): a float rate or
    a float number of periods always goes to the closed form, and so does every pair below the
    guard, where `(1 + rate) ^ periods` has fewer than 2048 bits -/
theorem pv_below_guard (r n : Num) :
    (pvGuard r n = true → ∃ ri ni : Int, r = .int ri ∧ n = .int ni ∧ intPowGuard (1 + ri) ni = true) ∧
    (∀ ni : Int, pvGuard (.int 0) (.int ni) = false ∧ pvGuard (.int (-1)) (.int ni) = false ∧
      pvGuard (.int (-2)) (.int ni) = false) ∧
    (∀ ri ni : Int, 0 ≤ ni → pvGuard (.int ri) (.int ni) = false → ((1 + ri) ^ ni.toNat).natAbs < 2 ^ 2048) := by
  refine ⟨?_, ?_, ?_⟩
  · intro h
    cases r with
    | flt q => rw [pvGuard_flt_left] at h; cases h
    | int ri =>
      cases n with
      | flt q => rw [pvGuard_flt_right] at h; cases h
      | int ni => exact ⟨ri, ni, rfl, rfl, by rw [← pvGuard_int]; exact h⟩
  · intro ni
    have key : ∀ g : Int, g.natAbs ≤ 1 → intPowGuard g ni = false := by
      intro g hg
      cases hb : intPowGuard g ni
      · rfl
      · have := ((intPowGuard_iff g ni).mp hb).1; omega
    exact ⟨by rw [pvGuard_int]; exact key _ (by decide), by rw [pvGuard_int]; exact key _ (by decide),
      by rw [pvGuard_int]; exact key _ (by decide)⟩
  · intro ri ni h0 h
    rw [pvGuard_int] at h
    exact below_guard_bounded _ _ h0 h

example : pvGuard (.int 1) (.int 1023) = false := by decide +kernel
example : pvGuard (.flt 1) (.int 5000) = false := rfl

/-! ## RAND, RANDBETWEEN — under the contract of Python's `random` -/

/-- if `random.random()` delivers a value in `[0, 1)`, so does RAND() -/
theorem rand_range (random : Unit → ℝ) (hc : 0 ≤ random () ∧ random () < 1) (u : ℝ)
    (h : RAND random [] = .ok u) : 0 ≤ u ∧ u < 1 := by
  simp only [RAND, Except.ok.injEq] at h
  subst h
  exact hc

example : RAND (fun _ => (1 / 2 : ℝ)) [] = .ok (1 / 2) := rfl

/-- if `random.randint(a, b)` only delivers integers in `[a, b]`, then RANDBETWEEN(a, b) on integer
    arguments returns an integer in `[a, b]` -/
theorem randbetween_range (randint : Int → Int → Option Int)
    (hc : ∀ a b r, randint a b = some r → a ≤ r ∧ r ≤ b) (a b r : Int)
    (h : RANDBETWEEN randint [.num (.int a), .num (.int b)] = .ok r) : a ≤ r ∧ r ≤ b := by
  simp only [RANDBETWEEN, parseNumber, toNumber, pyInt] at h
  split at h
  · rename_i r' hr
    cases h
    exact hc a b _ hr
  · cases h

example : RANDBETWEEN (fun a _ => some a) [.num (.int 1), .num (.int 6)] = .ok 1 := rfl

/-- the contract is satisfiable (a `randint` that raises on an empty range and returns the lower bound otherwise) -/
example : ∀ a b r : Int, (fun a b => if a ≤ b then some a else none) a b = some r → a ≤ r ∧ r ≤ b := by
  intro a b r h
  by_cases hab : a ≤ b
  · simp only [hab, if_true, Option.some.injEq] at h
    subst h
    exact ⟨le_refl _, hab⟩
  · simp [hab] at h

/-- RANDBETWEEN on a non-number is `#VALUE!` -/
theorem randbetween_text (randint : Int → Int → Option Int) (s : List Char) (b : Value)
    (h : ∀ n, toNumberText s ≠ .num n) : RANDBETWEEN randint [.str s, b] = .error .value := by
  have : parseNumber (.str s) = .error .value := by
    cases hs : toNumberText s with
    | num n => exact absurd hs (h n)
    | text => simp only [parseNumber, toNumber, hs]
  simp only [RANDBETWEEN, this]

/-! ## the exact results: ABS keeps integers integers; POWER on integers -/

/-- ABS returns the absolute value of the parsed number, an integer for an integer; an error
    argument is returned, a non-number is `#VALUE!` -/
theorem abs_exact (v : Value) :
    Math.ABS [v] = match parseNumber v with
      | .error e => .ok (.err e)
      | .ok n => .ok (.num (numAbs n)) := by
  simp only [Math.ABS]
  cases parseNumber v <;> rfl

/-- `numAbs` is the absolute value, and it does not change the kind of number -/
theorem numAbs_value (n : Num) :
    Num.toRat (numAbs n) = |Num.toRat n| ∧ (∀ i, n = .int i → numAbs n = .int |i|) := by
  constructor
  · cases n with
    | int i =>
      simp only [numAbs, Num.toRat]
      split
      · rename_i h
        rw [abs_of_neg (by exact_mod_cast h)]
        push_cast
        ring
      · rename_i h
        rw [abs_of_nonneg (by exact_mod_cast (not_lt.mp h))]
    | flt q =>
      simp only [numAbs, Num.toRat]
      split
      · rename_i h
        rw [abs_of_neg h]
      · rename_i h
        rw [abs_of_nonneg (not_lt.mp h)]
  · intro i hi
    subst hi
    simp only [numAbs]
    split
    · rename_i h
      rw [abs_of_neg h]
    · rename_i h
      rw [abs_of_nonneg (not_lt.mp h)]

/-- POWER on two integers with a non-negative exponent returns the exact integer power — below the
    guard (where the guard fires it is `#NUM!`: `power_int_guard`; where the power is beyond the float
    range without the guard firing it is `#ERROR!`, `math.isnan` raising OverflowError) -/
theorem power_int_exact (x y r : Int) (hy : 0 ≤ y)
    (h : powerIntExact (.num (.int x)) (.num (.int y)) = some (.ok r)) :
    r = x ^ y.toNat ∧ intPowGuard x y = false := by
  simp only [powerIntExact, parseNumber, toNumber] at h
  have hy' : ¬ y < 0 := not_lt.mpr hy
  simp only [hy', if_false] at h
  split at h
  · cases h
  · rename_i hg
    split at h
    · cases h
    · cases h
      exact ⟨intPow_eq x y.toNat, by simpa using hg⟩

example : powerIntExact (.num (.int 2)) (.num (.int 10)) = some (.ok 1024) := by decide +kernel

/-- the source constants of the two guards (regenerated from /repo): every integer literal of POWER
    and PV in source order, and the named ones the model is written with -/
theorem source_constants_power :
    Generated.intsPower = [1, 0, 1, 1024] ∧ Generated.intsPv = [0, 0, 0, 1, 1, 0, 1, 1024, 1, 1] ∧
    Generated.powerGuardMinAbs = 1 ∧ Generated.powerGuardMinPow = 0 ∧ Generated.powerGuardLess = 1 ∧
    Generated.powerGuardBits = 1024 ∧ Generated.pvGrowthOne = 1 ∧ Generated.pvGuardMinAbs = 1 ∧
    Generated.pvGuardMinPow = 0 ∧ Generated.pvGuardLess = 1 ∧ Generated.pvGuardBits = 1024 := by
  decide

/-- the guard of POWER as the code writes it — `abs(number) > 1 and power > 0 and
    (abs(number).bit_length() - 1) * power >= 1024` with `bit_length` the number of binary digits —
    and what it means: it fires EXACTLY when the largest power of two not above `|number|`, raised
    to `power`, reaches `2 ^ 1024` -/
theorem power_guard_iff (x y : Int) :
    (intPowGuard x y = true ↔ 1 < x.natAbs ∧ 0 < y ∧ (1024 : Int) ≤ ((bitLength x : Int) - 1) * y) ∧
    (x ≠ 0 → 2 ^ (bitLength x - 1) ≤ x.natAbs ∧ x.natAbs < 2 ^ bitLength x) ∧
    (intPowGuard x y = true ↔ 1 < x.natAbs ∧ 0 < y ∧ 2 ^ 1024 ≤ (2 ^ x.natAbs.log2) ^ y.toNat) :=
  ⟨intPowGuard_iff x y, bitLength_spec x, intPowGuard_exact x y⟩

example : intPowGuard 2 1024 = true ∧ intPowGuard 2 1023 = false ∧ intPowGuard 3 1024 = true ∧
    intPowGuard 3 1023 = false ∧ intPowGuard (-4) 512 = true ∧ intPowGuard 1 (10 ^ 15) = false ∧
    intPowGuard 7 0 = false ∧ intPowGuard 7 (-5) = false ∧ intPowGuard (2 ^ 1024) 1 = true := by decide +kernel

/-- where the guard fires POWER is `#NUM!` — for every number type, in particular both for the real
    numbers and for the doubles the driver runs — and there the exact integer power is at least
    `2 ^ 1024` in magnitude: beyond every double, so `#NUM!` never replaces a representable result
    (`float()` of such an int raises OverflowError: `intOverflowsFloat`).  Logicals and integer text
    count as ints, as in the code. -/
theorem power_guard_num {α : Type} (O : ElemOps α) (x y : Int) (h : intPowGuard x y = true) :
    POWER O [.num (.int x), .num (.int y)] = .error .num ∧
    2 ^ 1024 ≤ (x ^ y.toNat).natAbs ∧ intOverflowsFloat (x ^ y.toNat) = true := by
  refine ⟨?_, intPowGuard_sound x y h, ?_⟩
  · simp only [POWER, powGuardArgs, parseNumber, toNumber, h, if_true]
  · simp only [intOverflowsFloat, decide_eq_true_eq]
    exact le_trans (Nat.sub_le _ _) (intPowGuard_sound x y h)

example := power_guard_num realOps 2 1024 (by decide +kernel)
example := power_guard_num floatOps 2 (10 ^ 15) (by decide +kernel)
example : POWER realOps [.str "2".toList, .str "1024".toList] = .error .num := by
  simp only [POWER]
  rw [if_pos (by decide +kernel)]

/-- the guard of the model agrees with the overflow test on the exact power: where it fires,
    `float(number ** power)` would raise OverflowError (kept under its old name: formerly the
    model's own shortcut `|x| ≥ 2` and `y ≥ 1024`, now the guard of the code) -/
theorem power_int_shortcut (x y : Int) (h : intPowGuard x y = true) :
    intOverflowsFloat (x ^ y.toNat) = true := (power_guard_num realOps x y h).2.2

example : intOverflowsFloat ((2 : Int) ^ (1024 : Int).toNat) = true := power_int_shortcut 2 1024 (by decide +kernel)

/-- on two integers with a non-negative exponent the exact-integer reading of POWER says `#NUM!`
    exactly where the guard fires -/
theorem power_int_guard (x y : Int) (hy : 0 ≤ y) :
    powerIntExact (.num (.int x)) (.num (.int y)) = some (.error .num) ↔ intPowGuard x y = true := by
  have hy' : ¬ y < 0 := not_lt.mpr hy
  simp only [powerIntExact, parseNumber, toNumber, hy', if_false]
  cases hg : intPowGuard x y
  · simp only [Bool.false_eq_true, if_false, iff_false]
    split <;> simp
  · simp

/-- below the guard (exponent ≥ 0) the exact integer `number ** power` that Python computes has
    fewer than 2048 bits: the computation is bounded independently of the arguments (before the
    repair POWER(2, 10^15) did not return) -/
theorem power_below_guard_bounded (x y : Int) (hy : 0 ≤ y) (h : intPowGuard x y = false) :
    (x ^ y.toNat).natAbs < 2 ^ 2048 := below_guard_bounded x y hy h

example := power_below_guard_bounded 2 1023 (by decide) (by decide +kernel)

/-- the guard looks at Python ints only: it fires iff BOTH arguments parse to ints that meet it; a
    float argument (even an integral one: POWER(2.0, 5000)) never meets it -/
theorem power_guard_args (a b : Value) :
    powGuardArgs a b = true ↔
      ∃ x y : Int, parseNumber a = .ok (.int x) ∧ parseNumber b = .ok (.int y) ∧ intPowGuard x y = true := by
  unfold powGuardArgs
  constructor
  · intro h
    split at h
    · rename_i x y hx hy
      exact ⟨x, y, hx, hy, h⟩
    · cases h
  · rintro ⟨x, y, hx, hy, h⟩
    rw [hx, hy]
    exact h

/-- over the reals the number-level power never yields `#NUM!` (there are no NaNs) -/
theorem power_never_num (x y : ℝ) : power realOps x y ≠ .error .num := by
  unfold power
  cases realOps.pow x y <;> simp

/-- POWER's dispatch over the reals: the guard, then the two parsed numbers go to `power`; hence
    POWER is `#NUM!` EXACTLY where the guard fires, and below the guard everything said about
    `power realOps` (`domain_power`, `power_value`) and about the coercion (`coercion_binary`) holds
    of POWER unchanged -/
theorem power_num_iff_guard (a b : Value) :
    (POWER realOps [a, b] = if powGuardArgs a b then .error .num else bin realOps (power realOps) a b) ∧
    (POWER realOps [a, b] = .error .num ↔ powGuardArgs a b = true) ∧
    (powGuardArgs a b = false → POWER realOps [a, b] = bin realOps (power realOps) a b) := by
  refine ⟨rfl, ?_, fun h => by simp only [POWER, h, Bool.false_eq_true, if_false]⟩
  cases hg : powGuardArgs a b
  · simp only [POWER, hg, Bool.false_eq_true, if_false, iff_false]
    rw [coercion_binary]
    cases parseNumber a <;> cases parseNumber b <;> simp [power_never_num]
  · simp [POWER, hg]

example : POWER realOps [.num (.int 2), .num (.int 3)] = .ok ((2 : ℝ) ^ (3 : ℝ)) := by
  rw [(power_num_iff_guard _ _).2.2 (by decide +kernel), coercion_binary]
  simp only [parseNumber, toNumber, Num.toRat]
  have := power_value 2 3 (by norm_num)
  simpa using this

end HotXL.Props.C16
