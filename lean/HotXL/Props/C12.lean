/-
  C12 — logical functions are truth-functional; type predicates classify values.

  `truth` is the statement's reading of a value as a truth value (TRUE and non-zero numbers
  true; FALSE, zero and blank false; nothing else has one).  The theorems are about the models
  of hotxlfp/formulas/logic.py and information.py (`HotXL.Fn.Logic`, `HotXL.Fn.Info`), whose
  agreement with the Python code is checked by harness/props/c12.py.
-/
import HotXL.Lemmas.Logic
import HotXL.Lemmas.Routes

namespace HotXL.Props.C12
open HotXL HotXL.Ops HotXL.Fn HotXL.Fn.Logic HotXL.Fn.Info HotXL.Lemmas.Logic

/-! ## the statement's vocabulary -/

/-- the truth value the statement gives to a value: logicals are themselves, a number is true
    iff it is not zero, a blank is false; text, errors, dates, arrays have none -/
def truth : Value → Option Bool
  | .bool b => some b
  | .num n => some (decide (Num.toRat n ≠ 0))
  | .blank => some false
  | _ => none

/-- `v` is a logical, a number or a blank -/
def Logical (v : Value) : Prop := (truth v).isSome = true

/-- `truth` as a total function (false where `truth` is undefined; only used on `Logical` values) -/
def truthB (v : Value) : Bool := (truth v).getD false

/-- number of true items -/
def trueCount (xs : List Value) : Nat := xs.countP truthB

/-- TRUE iff an odd number of items is true -/
def parity (n : Nat) : Bool := decide (n % 2 = 1)

/-- on logicals, numbers and blanks the truthiness the code uses (Python `bool(x)`) is the statement's
    truth value -/
theorem logical_pyTruthy {v : Value} (h : Logical v) : pyTruthy v = truthB v := by
  cases v <;> simp_all [Logical, truth, truthB, pyTruthy, Num.isZero]

/-- a value with a truth value is not an error value -/
theorem logical_not_err {v : Value} (h : Logical v) : ¬ IsErr v := by
  cases v <;> simp_all [Logical, truth, IsErr]

/-- evaluation of closed instances (examples only) -/
local macro "c12_eval" : tactic => `(tactic| (and_intros <;> first | rfl | decide +kernel |
  (simp [AND, OR, XOR, NOT, IF, IFS, ifsScan, SWITCH, switchScan, ISEVEN, ISODD, asNumber?, flattenList,
     flattenValue, firstError, interleave, Logical, truth] <;> decide +kernel)))

/-! ## 1. AND, OR, XOR, NOT are truth-functional over the flattened arguments -/

/-- `AND` of any argument list (any arity, arrays nested to any depth) whose flattened items are
    logicals, numbers or blanks is the conjunction of their truth values. -/
theorem and_spec (args : List Value) (h : ∀ v ∈ flattenList args, Logical v) :
    AND args = .ok (.bool ((flattenList args).all truthB)) := by
  simp only [AND, firstError_none (fun v hv => logical_not_err (h v hv)), all_congr_mem (fun v hv => logical_pyTruthy (h v hv))]

/-- `OR` is the disjunction of the truth values of the flattened items. -/
theorem or_spec (args : List Value) (h : ∀ v ∈ flattenList args, Logical v) :
    OR args = .ok (.bool ((flattenList args).any truthB)) := by
  simp only [OR, firstError_none (fun v hv => logical_not_err (h v hv)), any_congr_mem (fun v hv => logical_pyTruthy (h v hv))]

/-- `XOR` is the parity of the number of true flattened items (odd ↦ TRUE). -/
theorem xor_spec (args : List Value) (h : ∀ v ∈ flattenList args, Logical v) :
    XOR args = .ok (.bool (parity (trueCount (flattenList args)))) := by
  simp only [XOR, firstError_none (fun v hv => logical_not_err (h v hv)), List.filter_congr (fun v hv => logical_pyTruthy (h v hv)),
    parity, trueCount, List.countP_eq_length_filter]

/-- `NOT` is negation of the truth value. -/
theorem not_spec (v : Value) (h : Logical v) : NOT [v] = .ok (.bool (!truthB v)) := by
  cases v <;> simp_all [Logical, truth, truthB, NOT, pyTruthy, Num.isZero]

example : (∀ v ∈ flattenList [.num (.int 1), .arr [.bool true, .arr [.blank, .num (.flt (1/2))]]], Logical v) ∧
    AND [.num (.int 1), .arr [.bool true, .arr [.blank, .num (.flt (1/2))]]] = .ok (.bool false) ∧
    OR [.num (.int 1), .arr [.bool true, .arr [.blank, .num (.flt (1/2))]]] = .ok (.bool true) ∧
    XOR [.num (.int 1), .arr [.bool true, .arr [.blank, .num (.flt (1/2))]]] = .ok (.bool true) ∧
    NOT [.num (.flt 0)] = .ok (.bool true) := by c12_eval

/-- Flattening does not see how the items are grouped: it is additive over separate arguments
    and forgets array brackets.  Hence `AND`, `OR`, `XOR` (functions of `flattenList args` only)
    do not depend on the grouping of their items into arguments and nested arrays. -/
theorem flatten_regroup :
    (∀ xs ys : List Value, flattenList (xs ++ ys) = flattenList xs ++ flattenList ys) ∧
    (∀ xs : List Value, flattenList [.arr xs] = flattenList xs) ∧
    (∀ xs : List Value, (∀ v ∈ xs, ¬ IsArr v) → flattenList xs = xs) :=
  ⟨flattenList_append, flattenList_arr_singleton, fun _ h => flattenList_scalars h⟩

/-- two argument lists with the same flattened items get the same AND, OR and XOR -/
theorem regroup_invariant (a b : List Value) (h : flattenList a = flattenList b) :
    AND a = AND b ∧ OR a = OR b ∧ XOR a = XOR b := by
  simp only [AND, OR, XOR, h, and_self]

/-- e.g. `AND(x, y, z…) = AND({x, {y}}, z…)` -/
theorem regroup_example (x y : Value) (zs : List Value) :
    AND (x :: y :: zs) = AND (.arr [x, .arr [y]] :: zs) ∧ OR (x :: y :: zs) = OR (.arr [x, .arr [y]] :: zs) ∧
    XOR (x :: y :: zs) = XOR (.arr [x, .arr [y]] :: zs) := by
  apply regroup_invariant
  simp [flattenList_cons, flattenValue_arr, flattenList_nil]

/-! ## 2. IF, IFS, SWITCH -/

/-- `IF(c, a, b)` is `a` when the condition is true and `b` when it is false. -/
theorem if_spec (c a b : Value) (h : Logical c) : IF [c, a, b] = .ok (if truthB c then a else b) := by
  cases c <;> simp_all [Logical, truth, truthB, IF, pyTruthy, Num.isZero] <;> rfl

example : Logical (.num (.int 0)) ∧ IF [.num (.int 0), .str ['a'], .str ['b']] = .ok (.str ['b']) := by c12_eval

/-- `IFS(c₁, v₁, c₂, v₂, …)` (conditions logicals, numbers or blanks) returns the value paired
    with the first true condition, else `#N/A`; a trailing unpaired argument is ignored. -/
theorem ifs_first_true (ps : List (Value × Value)) (tl : List Value) (h : ∀ p ∈ ps, Logical p.1)
    (htl : tl.length ≤ 1) :
    IFS (interleave ps ++ tl) =
      .ok (match ps.find? (fun p => truthB p.1) with
        | some p => p.2
        | none => .err .na) := by
  have htl' : ifsScan tl = .err .na := by
    match tl, htl with
    | [], _ => rfl
    | [_], _ => rfl
  simp only [IFS, ifsScan_interleave ps tl (fun p hp => logical_not_err (h p hp)), htl',
    find?_congr_mem (p := fun p : Value × Value => pyTruthy p.1) (q := fun p => truthB p.1)
      (fun p hp => logical_pyTruthy (h p hp))]
  cases ps.find? (fun p => truthB p.1) <;> rfl

example : IFS (interleave [(.num (.int 0), .str ['a']), (.bool true, .str ['b']), (.num (.int 1), .str ['c'])] ++ []) =
    .ok (.str ['b']) ∧ IFS (interleave [(.blank, .str ['a'])] ++ []) = .ok (.err .na) := by c12_eval

/-- the hypotheses of `ifs_first_true` hold on `IFS(0,"a",TRUE,"b",1,"c")` -/
example : (∀ p ∈ [((.num (.int 0) : Value), (.str ['a'] : Value)), (.bool true, .str ['b']), (.num (.int 1), .str ['c'])],
    Logical p.1) ∧ ([] : List Value).length ≤ 1 := by
  simp [Logical, truth]

/-- `SWITCH(t, c₁, r₁, c₂, r₂, …[, d])` with at least one case (and `t` not an error) returns the
    result paired with the first case that is `==`-equal to the target; else the default `d` when
    there is one (an odd number of arguments after the target); else `#N/A`.  Every target, case,
    result and default value; any number of cases.  The default is never compared with the target. -/
theorem switch_first_equal (t : Value) (ps : List (Value × Value)) (dflt : Option Value)
    (ht : ¬ IsErr t) (hps : ps ≠ []) :
    SWITCH (t :: (interleave ps ++ dflt.toList)) =
      .ok (match ps.find? (fun p => pyEqValue t p.1) with
        | some p => p.2
        | none => dflt.getD (.err .na)) := by
  have hlen : ¬ (interleave ps ++ dflt.toList).length ≤ 1 := by
    cases ps with
    | nil => exact absurd rfl hps
    | cons p ps => simp [interleave]
  have hscan := switchScan_interleave t ps dflt.toList (by cases dflt <;> simp)
  have hpar : (interleave ps ++ dflt.toList).length % 2 = if dflt.isSome then 1 else 0 := by
    cases dflt <;> simp [interleave_length] <;> omega
  have key : (if (interleave ps ++ dflt.toList).length ≤ 1 then (.ok (.err .na) : Except Err Value) else
      match switchScan t (interleave ps ++ dflt.toList) with
      | some r => .ok r
      | none => if (interleave ps ++ dflt.toList).length % 2 = 0 then .ok (.err .na)
                else .ok ((interleave ps ++ dflt.toList).getLast?.getD .blank)) =
      .ok (match ps.find? (fun p => pyEqValue t p.1) with
        | some p => p.2
        | none => dflt.getD (.err .na)) := by
    rw [if_neg hlen, hscan, hpar]
    cases ps.find? (fun p => pyEqValue t p.1) with
    | some p => rfl
    | none =>
      cases dflt with
      | none => simp
      | some d => simp
  cases t <;> first | (exact absurd trivial ht) | exact key

/-- the corners of the code: `SWITCH(t)` and `SWITCH(t, c)` — a lone argument is a case without a
    result, not a default — are `#N/A` -/
theorem switch_single_argument (t c : Value) (ht : ¬ IsErr t) :
    SWITCH [t] = .ok (.err .na) ∧ SWITCH [t, c] = .ok (.err .na) := by
  cases t <;> first | (exact absurd trivial ht) | exact ⟨rfl, rfl⟩

example : SWITCH (.num (.int 2) :: (interleave [(.num (.int 1), .str ['a']), (.num (.flt 2), .str ['b']), (.num (.int 2), .str ['c'])]
      ++ (some (.str ['d'])).toList)) = .ok (.str ['b']) ∧
    SWITCH (.str ['x'] :: (interleave [(.str ['X'], .num (.int 1))] ++ (some (.num (.int 9))).toList)) = .ok (.num (.int 9)) ∧
    SWITCH (.str ['x'] :: (interleave [(.str ['X'], .num (.int 1))] ++ (none : Option Value).toList)) = .ok (.err .na) := by c12_eval

/-- the repaired defect: a default equal to the target is returned (the default used to be compared
    with the target and `SWITCH(1,2,3,1)` raised IndexError) -/
example : SWITCH [.num (.int 1), .num (.int 2), .num (.int 3), .num (.int 1)] = .ok (.num (.int 1)) := by c12_eval

/-! ## 3. an error value in a tested condition yields that error -/

/-- `AND`, `OR`, `XOR`: the first error among the flattened items (whatever precedes and follows
    it, true or false) is the result. -/
theorem condition_error_and_or_xor (args pre post : List Value) (e : Err)
    (hsplit : flattenList args = pre ++ .err e :: post) (hpre : ∀ v ∈ pre, ¬ IsErr v) :
    AND args = .ok (.err e) ∧ OR args = .ok (.err e) ∧ XOR args = .ok (.err e) := by
  simp only [AND, OR, XOR, hsplit, firstError_split pre post e hpre, and_self]

/-- the hypotheses hold on `AND(FALSE, {1, {#N/A}}, 1/0)`: the first error is `#N/A` -/
example : flattenList [.bool false, .arr [.num (.int 1), .arr [.err .na]], .err .div0] =
      [.bool false, .num (.int 1)] ++ .err .na :: [.err .div0] ∧
    (∀ v ∈ [(.bool false : Value), .num (.int 1)], ¬ IsErr v) := by
  simp [flattenList, flattenValue, IsErr]

/-- … and whenever some flattened item is an error, the result of `AND`/`OR`/`XOR` is an error
    item with no error before it. -/
theorem condition_error_exists (args : List Value) (h : ∃ v ∈ flattenList args, IsErr v) :
    ∃ e pre post, flattenList args = pre ++ .err e :: post ∧ (∀ v ∈ pre, ¬ IsErr v) ∧
      AND args = .ok (.err e) ∧ OR args = .ok (.err e) ∧ XOR args = .ok (.err e) := by
  cases hfe : firstError (flattenList args) with
  | none =>
    obtain ⟨v, hv, hverr⟩ := h
    exact absurd hverr (not_isErr_of_firstError_none hfe v hv)
  | some e =>
    obtain ⟨pre, post, hs, hp⟩ := firstError_some hfe
    exact ⟨e, pre, post, hs, hp, condition_error_and_or_xor args pre post e hs hp⟩

/-- `NOT`, `IF`, `SWITCH`: an error as the tested value is the result, whatever the branches,
    cases and defaults are. -/
theorem condition_error_not_if_switch (e : Err) (a b : Value) (rest : List Value) :
    NOT [.err e] = .ok (.err e) ∧ IF [.err e, a, b] = .ok (.err e) ∧
    SWITCH (.err e :: rest) = .ok (.err e) := ⟨rfl, rfl, rfl⟩

/-- `IFS`: an error in the first condition that is reached (all earlier conditions false) is the
    result. -/
theorem condition_error_ifs (ps : List (Value × Value)) (e : Err) (v : Value) (rest : List Value)
    (h : ∀ p ∈ ps, Logical p.1 ∧ truthB p.1 = false) :
    IFS (interleave ps ++ .err e :: v :: rest) = .ok (.err e) := by
  have hfind : ps.find? (fun p => pyTruthy p.1) = none := by
    simp only [List.find?_eq_none]
    intro p hp
    simp [logical_pyTruthy (h p hp).1, (h p hp).2]
  simp only [IFS, ifsScan_interleave ps _ (fun p hp => logical_not_err (h p hp).1), hfind, ifsScan]

/-- the hypotheses of `condition_error_ifs` hold on `IFS(0,"a",,"b",#VALUE!,"c",TRUE,"d")` -/
example : (∀ p ∈ [((.num (.int 0) : Value), (.str ['a'] : Value)), (.blank, .str ['b'])], Logical p.1 ∧ truthB p.1 = false) ∧
    IFS (interleave [(.num (.int 0), .str ['a']), (.blank, .str ['b'])] ++ .err .value :: .str ['c'] :: [.bool true, .str ['d']]) =
      .ok (.err .value) := by
  refine ⟨by simp [Logical, truth, truthB, Num.toRat], by c12_eval⟩

/-- the repaired cases `AND(1/0)`, `OR(1/0)`, `XOR(1/0)`, `NOT(1/0)`, `IF(1/0,1,2)`, `IFS(1/0,1)`,
    `SWITCH(1/0,1,2)` (they used to give TRUE, TRUE, TRUE, FALSE, 1, 1, #N/A), and errors behind
    other items -/
example : AND [.err .div0] = .ok (.err .div0) ∧ OR [.err .div0] = .ok (.err .div0) ∧
    XOR [.err .div0] = .ok (.err .div0) ∧ NOT [.err .div0] = .ok (.err .div0) ∧
    IF [.err .div0, .num (.int 1), .num (.int 2)] = .ok (.err .div0) ∧
    IFS [.err .div0, .num (.int 1)] = .ok (.err .div0) ∧
    SWITCH [.err .div0, .num (.int 1), .num (.int 2)] = .ok (.err .div0) ∧
    AND [.bool false, .arr [.num (.int 1), .arr [.err .na]], .err .div0] = .ok (.err .na) ∧
    OR [.bool true, .err .num] = .ok (.err .num) ∧
    IFS [.num (.int 0), .str ['a'], .err .value, .str ['b'], .bool true, .str ['c']] = .ok (.err .value) := by c12_eval

/-! ## 4. type predicates -/

/-- the five kinds of scalar values the statement names -/
inductive Kind where
  | number | text | logical | blank | error
  deriving DecidableEq, Repr

/-- the kind of a value; dates, arrays and foreign objects have none -/
def kind : Value → Option Kind
  | .num _ => some .number
  | .str _ => some .text
  | .bool _ => some .logical
  | .blank => some .blank
  | .err _ => some .error
  | _ => none

/-- the predicate that tests for a kind -/
def pred : Kind → Builtin
  | .number => ISNUMBER
  | .text => ISTEXT
  | .logical => ISLOGICAL
  | .blank => ISBLANK
  | .error => ISERROR

/-- Each of ISNUMBER, ISTEXT, ISLOGICAL, ISBLANK, ISERROR answers TRUE or FALSE on every value,
    and TRUE exactly on the values of its kind. -/
theorem predicates_classify (v : Value) (k : Kind) :
    pred k [v] = .ok (.bool (decide (kind v = some k))) := by
  cases k <;> cases v <;> rfl

/-- On a number, text, logical, blank or error value exactly one of the five predicates is TRUE
    (the one of its kind, the others are FALSE); on dates, arrays and foreign objects all five are
    FALSE. -/
theorem predicates_partition (v : Value) :
    (∀ k₀, kind v = some k₀ → ∀ k, pred k [v] = .ok (.bool (decide (k = k₀)))) ∧
    (kind v = none → ∀ k, pred k [v] = .ok (.bool false)) := by
  constructor
  · intro k₀ h k
    rw [predicates_classify, h]
    cases k <;> cases k₀ <;> rfl
  · intro h k
    rw [predicates_classify, h]
    rfl

example : kind (.num (.flt (1/2))) = some .number ∧ kind (.str []) = some .text ∧ kind (.date 0) = none ∧
    kind (.arr [.num (.int 1)]) = none ∧ ISNUMBER [.date 0] = .ok (.bool false) ∧
    ISTEXT [.str ['1']] = .ok (.bool true) ∧ ISNUMBER [.str ['1']] = .ok (.bool false) ∧
    ISNUMBER [.bool true] = .ok (.bool false) := by c12_eval

/-- ISNONTEXT is the negation of ISTEXT on every value. -/
theorem nontext_is_not_text (v : Value) :
    ∃ b, ISTEXT [v] = .ok (.bool b) ∧ ISNONTEXT [v] = .ok (.bool (!b)) := by
  cases v <;> exact ⟨_, rfl, rfl⟩

/-- ISERROR = ISERR or ISNA on every value (and ISERR, ISNA exclude each other). -/
theorem iserror_split (v : Value) :
    ∃ a b, ISERR [v] = .ok (.bool a) ∧ ISNA [v] = .ok (.bool b) ∧ ISERROR [v] = .ok (.bool (a || b)) ∧
      (a && b) = false := by
  cases v with
  | err e => cases e <;> exact ⟨_, _, rfl, rfl, rfl, rfl⟩
  | _ => exact ⟨_, _, rfl, rfl, rfl, rfl⟩

/-- ISEVEN and ISODD report the parity of the integer part `trunc n` (truncation toward zero) of
    every number: ISEVEN the logical `trunc n mod 2 = 0`, ISODD the INTEGER `trunc n mod 2`
    (1 or 0, for negative numbers too). -/
theorem parity_spec (n : Num) :
    ISEVEN [.num n] = .ok (.bool (decide (truncNum n % 2 = 0))) ∧
    ISODD [.num n] = .ok (.num (.int (truncNum n % 2))) ∧
    (truncNum n % 2 = 0 ∨ truncNum n % 2 = 1) := by
  refine ⟨rfl, rfl, ?_⟩
  omega

/-- ISEVEN and ISODD are complementary: the truth value of ISODD's result (1 ≙ TRUE, 0 ≙ FALSE,
    Python truthiness and the statement's `truth` alike) is the negation of ISEVEN's. -/
theorem parity_complementary (n : Num) :
    ∃ b r, ISEVEN [.num n] = .ok (.bool b) ∧ ISODD [.num n] = .ok r ∧ pyTruthy r = !b ∧ truth r = some (!b) := by
  refine ⟨_, _, rfl, rfl, ?_, ?_⟩
  · simp only [pyTruthy, Num.isZero, Num.toRat, intCast_eq_zero_iff]
  · simp only [truth, Num.toRat, ne_eq, intCast_eq_zero_iff, decide_not]

/-- logicals count as the numbers 1/0 (`bool` is a Python number type); every other non-number is
    `#VALUE!` -/
theorem parity_nonnumber (v : Value) (h : asNumber? v = none) :
    ISEVEN [v] = .ok (.err .value) ∧ ISODD [v] = .ok (.err .value) := by
  simp only [ISEVEN, ISODD, h, and_self]

/-- On a LOGICAL the two parity functions answer alike and complementary: TRUE counts as the number 1 (odd), FALSE as 0
    (even) - the clause the check's oracle demands of every logical (`ISEVEN` and `ISODD` both a parity, never one a
    parity and the other an error). -/
theorem parity_logical (b : Bool) :
    ∃ e r, ISEVEN [.bool b] = .ok (.bool e) ∧ ISODD [.bool b] = .ok r ∧ e = !b ∧ pyTruthy r = b := by
  cases b
  · exact ⟨_, _, rfl, rfl, rfl, rfl⟩
  · exact ⟨_, _, rfl, rfl, rfl, rfl⟩

example : ISEVEN [.bool true] = .ok (.bool false) ∧ ISODD [.bool false] = .ok (.num (.int 0)) := ⟨rfl, rfl⟩

/-- `truncNum` really is truncation toward zero: an integer of the same sign as the number, not
    larger in absolute value, and less than 1 away from it. -/
theorem truncNum_spec (n : Num) :
    (0 ≤ Num.toRat n → 0 ≤ truncNum n ∧ (truncNum n : Rat) ≤ Num.toRat n ∧ Num.toRat n < (truncNum n : Rat) + 1) ∧
    (Num.toRat n ≤ 0 → truncNum n ≤ 0 ∧ Num.toRat n ≤ (truncNum n : Rat) ∧ (truncNum n : Rat) - 1 < Num.toRat n) := by
  cases n with
  | int i =>
    simp only [Num.toRat, truncNum]
    have h1 : (0 : Rat) ≤ (i : Rat) ↔ 0 ≤ i := by
      have := @Rat.intCast_le_intCast 0 i
      simpa using this
    have h2 : (i : Rat) ≤ 0 ↔ i ≤ 0 := by
      have := @Rat.intCast_le_intCast i 0
      simpa using this
    refine ⟨fun h => ⟨h1.mp h, Rat.le_refl, ?_⟩, fun h => ⟨h2.mp h, Rat.le_refl, ?_⟩⟩ <;> grind
  | flt q =>
    simp only [Num.toRat, truncNum]
    by_cases hq : q ≥ 0
    · simp only [hq, if_true]
      have hf := Rat.floor_le q
      have hl := Rat.lt_floor_add_one q
      rw [Rat.intCast_add] at hl
      have h0 : (0 : Int) ≤ q.floor := Rat.le_floor_iff.mpr (by simpa using hq)
      refine ⟨fun _ => ⟨h0, hf, by simpa using hl⟩, fun h => ?_⟩
      have hq0 : q = 0 := Rat.le_antisymm h hq
      subst hq0
      have hz : (0 : Rat).floor = 0 := Rat.floor_intCast 0
      rw [hz]
      refine ⟨Int.le_refl _, Rat.le_refl, by decide +kernel⟩
    · simp only [hq, if_false]
      have hf := Rat.floor_le (-q)
      have hl := Rat.lt_floor_add_one (-q)
      rw [Rat.intCast_add] at hl
      have hq' : q < 0 := Rat.not_le.mp hq
      have h0 : (0 : Int) ≤ (-q).floor := Rat.le_floor_iff.mpr (by simp; grind)
      refine ⟨fun h => h.elim, fun _ => ⟨by omega, ?_, ?_⟩⟩
      · rw [Rat.intCast_neg]; grind
      · rw [Rat.intCast_neg]; simp at hl; grind

example : truncNum (.flt (-7/2)) = -3 ∧ truncNum (.flt (7/2)) = 3 ∧ truncNum (.int (-3)) = -3 ∧
    ISEVEN [.num (.flt (-7/2))] = .ok (.bool false) ∧ ISODD [.num (.flt (-7/2))] = .ok (.num (.int 1)) ∧
    ISEVEN [.num (.flt (29/10))] = .ok (.bool true) ∧ ISODD [.num (.int (-3))] = .ok (.num (.int 1)) ∧
    ISEVEN [.str ['2']] = .ok (.err .value) := by c12_eval

/-! ### IF as a route (DESIGN.md 1.7): `IF(TRUE,x,0)` hands the value of `x` on -/

/-- In a formula, on a parser whose host redefined neither `IF` nor `TRUE`, `IF(TRUE,x,0)` evaluates
    to what `x` evaluates to — for every expression `x` with a known value (an error value included). -/
theorem if_true_hands_on {env : Eval.Env} (hc : env.custom "IF".toList = none) (hT : env.vars "TRUE".toList = none)
    {x : Syntax.Expr} {v : Value} (hx : ErrorFlow.outcome env x = .ok v) (hno : Eval.isNoOpinion v = false) :
    ErrorFlow.outcome env (.call "IF".toList .flat [.var ["TRUE".toList], x, .num (.int ['0'])] []) = .ok v :=
  Routes.if_route hc hT hx hno

/-- non-vacuity: `IF(TRUE,"ab",0)` -/
example : ErrorFlow.outcome Eval.Env.empty
    (.call "IF".toList .flat [.var ["TRUE".toList], .str "ab".toList, .num (.int ['0'])] []) = .ok (.str "ab".toList) :=
  if_true_hands_on rfl rfl rfl rfl

end HotXL.Props.C12
