/-
  C08 — error values propagate through operators and can be trapped.
-/
import HotXL.Model.Eval

namespace HotXL.Props.C08
open HotXL HotXL.Ops HotXL.Eval

/-- unary minus returns an error operand -/
theorem neg_error (e : Err) : evalNeg (.err e) = .ok (.err e) := rfl

end HotXL.Props.C08
