/-
  C08 — error values propagate through operators and can be trapped.

  Two error channels exist in hotxlfp and in the model: error VALUES (`Value.err e`, returned by
  the operators and by most builtins) and RAISED exceptions (`Exn`: an error literal through
  `_throw_error`, an unknown name, a `TypeError` inside an operator).  A raise aborts the whole
  formula; `call_function` converts a raise inside a function body into the call's value.

  `outcome env x` is `(evalExpr env x log).1` for every `log` (`outcome_eq`): the event log is
  write-only, so what an expression evaluates to does not depend on it.
-/
import HotXL.Model.Eval
import HotXL.Lemmas.ErrorFlow
import HotXL.Lemmas.NoOpinion
import HotXL.Lemmas.Routes

namespace HotXL.Props.C08
open HotXL HotXL.Ops HotXL.Eval HotXL.Syntax HotXL.ErrorFlow

/-! ## 1. one operator -/

/-- unary minus returns an error operand -/
theorem neg_error (e : Err) : evalNeg (.err e) = .ok (.err e) := rfl

/-- each of the eleven binary operators (`+ - * / & > < >= <= = <>`) with an error as LEFT operand
    evaluates to that error, whatever the right operand is (number, text, blank, another error,
    an array, a foreign object) -/
theorem binop_left_error (op : BinOp) (e : Err) (v : Value) :
    binOfOp op (.err e) v = .ok (.err e) :=
  binOfOp_left_err op e v

/-- each binary operator with an error as RIGHT operand evaluates to that error when the left
    operand is not an error itself (any other value, arrays and foreign objects included) -/
theorem binop_right_error (op : BinOp) (e : Err) (v : Value) (h : isErr v = none) :
    binOfOp op v (.err e) = .ok (.err e) :=
  binOfOp_right_err op e v h

example : isErr (.arr [.num (.int 1), .str []]) = none ∧ isErr (.other "object") = none ∧ isErr .blank = none :=
  ⟨rfl, rfl, rfl⟩

/-- when both operands are errors the left one is the result -/
theorem binop_both_errors (op : BinOp) (e f : Err) : binOfOp op (.err e) (.err f) = .ok (.err e) :=
  binOfOp_left_err op e _

/-- the three Python routines behind the operators — `evaluate_arithmetic` (at every array nesting
    budget), `evaluate_logic`, the `&` reduction — check for an error operand first, left operand
    first -/
theorem operator_routines_check_errors_first (e : Err) (v : Value) :
    (∀ fuel op, evalArith fuel op (.err e) v = .ok (.err e)) ∧
    (∀ op, evalLogic op (.err e) v = .ok (.err e)) ∧
    evalAmp (.err e) v = .ok (.err e) ∧
    (isErr v = none →
      (∀ fuel op, evalArith fuel op v (.err e) = .ok (.err e)) ∧
      (∀ op, evalLogic op v (.err e) = .ok (.err e)) ∧
      evalAmp v (.err e) = .ok (.err e)) :=
  ⟨fun fuel op => evalArith_left_err fuel op e v, fun op => evalLogic_left_err op e v, evalAmp_left_err e v,
   fun h => ⟨fun fuel op => evalArith_right_err fuel op e v h, fun op => evalLogic_right_err op e v h,
             evalAmp_right_err e v h⟩⟩

/-- `outcome` is the first component of `evalExpr` from ANY log; the second component is the log
    with the events of the evaluation appended -/
theorem outcome_eq (env : Env) (x : Expr) (log : Log) :
    (evalExpr env x log).1 = outcome env x ∧ (evalExpr env x log).2 = log ++ (evalExpr env x []).2 :=
  ⟨evalExpr_fst env x log, evalExpr_snd env x log⟩

/-- an operator node whose left operand evaluated to an error value has that value, provided the
    right operand evaluates at all (the events of both operands are logged) -/
theorem bin_node_left_error (env : Env) (op : BinOp) (l r : Expr) (e : Err) (rv : Value) (log log1 log2 : Log)
    (hl : evalExpr env l log = (.ok (.err e), log1)) (hr : evalExpr env r log1 = (.ok rv, log2)) :
    evalExpr env (.bin op l r) log = (.ok (.err e), log2) := by
  rw [evalExpr, hl]; simp only []; rw [hr]; simp only [binOfOp_left_err]

/-- an operator node whose right operand evaluated to an error value and whose left operand
    evaluated to a non-error value has the right operand's error as value -/
theorem bin_node_right_error (env : Env) (op : BinOp) (l r : Expr) (e : Err) (lv : Value) (log log1 log2 : Log)
    (hl : evalExpr env l log = (.ok lv, log1)) (hne : isErr lv = none)
    (hr : evalExpr env r log1 = (.ok (.err e), log2)) :
    evalExpr env (.bin op l r) log = (.ok (.err e), log2) := by
  rw [evalExpr, hl]; simp only []; rw [hr]; simp only [binOfOp_right_err _ _ _ hne]

/-- a unary-minus node over an error value has that value -/
theorem neg_node_error (env : Env) (x : Expr) (e : Err) (log log1 : Log)
    (h : evalExpr env x log = (.ok (.err e), log1)) :
    evalExpr env (.neg x) log = (.ok (.err e), log1) := by
  rw [evalExpr, h]; rfl

/-! ## 2. operator trees of any depth -/

/-- PATH FORM.  Put an expression `x` that evaluates to the error value `e` anywhere below
    operators (`c` is the path: unary minus and binary operators, at any depth, any of the eleven
    operators at each step).  If at each binary node on the path the sibling operand evaluates to a
    value, and each sibling that is a LEFT operand to a non-error value (else that one would win),
    the whole expression evaluates to `e`, from every log. -/
theorem path_propagates (env : Env) (c : Ctx) (x : Expr) (e : Err)
    (hc : c.Carries env) (hx : outcome env x = .ok (.err e)) (log : Log) :
    (evalExpr env (c.fill x) log).1 = .ok (.err e) := by
  rw [evalExpr_fst]; exact carries_ctx env x e hx c hc

/-- TREE FORM.  `t` is any tree of unary minus / binary operators over arbitrary leaf expressions.
    Assume the tree is regular: every subtree none of whose leaves evaluates to an error value
    evaluates to a non-error value (the error-free parts "cannot fail on their own": no `1/0`, no
    `-"a"` there; this also forces every leaf to evaluate to a value).  Then, if some leaf
    evaluates to an error value, the whole tree evaluates to the error of the LEFTMOST such leaf.
    (Nothing is claimed when no leaf is an error.) -/
theorem tree_propagates (env : Env) (t : OpTree)
    (hreg : ∀ s ∈ t.subtrees, s.firstErr env = none → ∃ v, outcome env s.toExpr = .ok v ∧ isErr v = none)
    (e : Err) (h : t.firstErr env = some e) (log : Log) :
    (evalExpr env t.toExpr log).1 = .ok (.err e) := by
  rw [evalExpr_fst]; exact tree_firstErr env t hreg e h

/-- the same with the leaf values spelled out: if the leaves, evaluated left to right, give the
    values `vs`, the result is `firstError vs` (the first error in the list) -/
theorem tree_propagates_values (env : Env) (t : OpTree) (vs : List Value)
    (hvs : outcomes env t.leaves = .ok vs)
    (hreg : ∀ s ∈ t.subtrees, s.firstErr env = none → ∃ v, outcome env s.toExpr = .ok v ∧ isErr v = none)
    (e : Err) (h : Fn.firstError vs = some e) (log : Log) :
    (evalExpr env t.toExpr log).1 = .ok (.err e) := by
  apply tree_propagates env t hreg e _ log
  rw [OpTree.firstErr, findSome_leafErr_eq_firstError env t.leaves vs hvs, h]

/-- the regularity hypothesis cannot be dropped: "all leaves evaluate to values ⇒ the leftmost
    error leaf is the result" is false as a statement about arbitrary operator trees -/
def TreePropagatesUnconditional : Prop :=
  ∀ (env : Env) (t : OpTree) (e : Err), (∀ x ∈ t.leaves, ∃ v, outcome env x = .ok v) →
    t.firstErr env = some e → outcome env t.toExpr = .ok (.err e)

/-- `(1/0) + NA()` read as a tree over the three leaves `1`, `0`, `NA()`: all leaves evaluate to
    values, the leftmost (only) error leaf is `#N/A`, the result is `#DIV/0!` — produced by an
    operator to its left.  (With `1/0` taken as ONE leaf the tree is regular and
    `tree_propagates` gives `#DIV/0!`.) -/
theorem tree_propagates_needs_regularity : ¬ TreePropagatesUnconditional := by
  intro h
  have hl : ∀ x ∈ (OpTree.bin .add (.bin .div (.leaf one) (.leaf zero)) (.leaf naCall)).leaves,
      ∃ v, outcome Env.empty x = .ok v := by
    intro x hx
    simp only [OpTree.leaves, List.cons_append, List.nil_append, List.mem_cons, List.not_mem_nil, or_false] at hx
    rcases hx with rfl | rfl | rfl
    · exact ⟨_, rfl⟩
    · exact ⟨_, rfl⟩
    · exact ⟨_, outcome_naCall⟩
  have hf : (OpTree.bin .add (.bin .div (.leaf one) (.leaf zero)) (.leaf naCall)).firstErr Env.empty = some .na := by
    simp [OpTree.firstErr, OpTree.leaves, List.findSome?, leafErr, outcome_naCall, one, zero, evalNumLit]
  have := h Env.empty _ .na hl hf
  have h2 : outcome Env.empty (OpTree.bin .add (.bin .div (.leaf one) (.leaf zero)) (.leaf naCall)).toExpr
      = .ok (.err .div0) := by
    show outcome Env.empty (.bin .add oneByZero naCall) = _
    rw [outcome_bin, outcome_oneByZero, outcome_naCall]
    exact binOfOp_left_err .add .div0 _
  rw [h2] at this
  cases this

/-- the other way regularity can fail: in `NA() + (-"a")` the error-free part `-"a"` raises a
    `TypeError`, so the formula aborts (reported as `#ERROR!`) although its left operand is `#N/A` -/
example : outcome Env.empty (.bin .add naCall (.neg (.str ['a']))) = .error (.py "#ERROR!") := by
  rw [outcome_bin, outcome_naCall, outcome_neg, outcome_str]; rfl

/-- non-vacuity of `tree_propagates`: `-( (1/0) + 2 ) = NA()` with `1/0`, `2`, `NA()` as leaves is
    regular, its leftmost error leaf is `#DIV/0!`, and that is its value -/
example : (evalExpr Env.empty (.bin .eq (.neg (.bin .add oneByZero two)) naCall) []).1 = .ok (.err .div0) := by
  have hreg : ∀ s ∈ (OpTree.bin .eq (.neg (.bin .add (.leaf oneByZero) (.leaf two))) (.leaf naCall)).subtrees,
      s.firstErr Env.empty = none → ∃ v, outcome Env.empty s.toExpr = .ok v ∧ isErr v = none := by
    intro s hs
    simp only [OpTree.subtrees, List.cons_append, List.nil_append, List.mem_cons, List.not_mem_nil, or_false] at hs
    rcases hs with rfl | rfl | rfl | rfl | rfl | rfl <;>
      simp [OpTree.firstErr, OpTree.leaves, leafErr, outcome_oneByZero, outcome_naCall, two,
        OpTree.toExpr, isErr, evalNumLit]
  exact tree_propagates Env.empty
    (.bin .eq (.neg (.bin .add (.leaf oneByZero) (.leaf two))) (.leaf naCall)) hreg .div0
    (by simp [OpTree.firstErr, OpTree.leaves, leafErr, outcome_oneByZero]) []

/-- non-vacuity of `path_propagates`: `2 * -( □ & "a")` with `NA()` in the hole -/
example : (evalExpr Env.empty (.bin .mul two (.neg (.bin .amp naCall (.str ['a'])))) []).1 = .ok (.err .na) :=
  path_propagates Env.empty (.binR .mul two (.neg (.binL .amp .hole (.str ['a'])))) naCall .na
    ⟨⟨_, rfl, rfl⟩, ⟨_, rfl⟩, trivial⟩ outcome_naCall []

/-! ## 3. raised exceptions abort the formula; error literals raise -/

/-- an error literal does not evaluate to a value: `_throw_error` raises `from_message(text)` -/
theorem literal_aborts (env : Env) (t : List Char) (log : Log) :
    evalExpr env (.errLit t) log = (.error (throwErrorLit t), log) := rfl

/-- once a sub-evaluation raises `ex`, every enclosing unary minus, binary operator, function call
    and array node returns `ex` (`c` is the path from the root down to the sub-expression, any depth),
    provided the evaluation gets there: everything evaluated earlier (left operands, earlier
    arguments) evaluates normally.  The resulting log is the log at the raise — nothing that comes
    later in evaluation order (right operands, later arguments, the enclosing calls) leaves an event. -/
theorem abort_propagates (env : Env) (c : Ctx) (x : Expr) (ex : Exn)
    (hc : c.Reaches env) (hx : outcome env x = .error ex) (log : Log) :
    evalExpr env (c.fill x) log = (.error ex, (evalExpr env x (c.entryLog env log)).2) :=
  abort_ctx env x ex hx c hc log

/-- a raise in the left operand is the result of a binary node and the right operand is not
    evaluated (the log is the one the left operand left) -/
theorem abort_left_skips_right (env : Env) (op : BinOp) (l r : Expr) (ex : Exn) (log log1 : Log)
    (h : evalExpr env l log = (.error ex, log1)) : evalExpr env (.bin op l r) log = (.error ex, log1) :=
  bin_abort_left op r h

/-- a formula in which the first sub-expression (in evaluation order) that does not evaluate
    normally is an error literal aborts with that literal's error, and the log stops there -/
theorem literal_aborts_formula (env : Env) (c : Ctx) (t : List Char) (hc : c.Reaches env) (log : Log) :
    evalExpr env (c.fill (.errLit t)) log = (.error (throwErrorLit t), c.entryLog env log) :=
  abort_ctx env (.errLit t) (throwErrorLit t) rfl c hc log

/-- non-vacuity: `IFERROR(1 + #N/A, 2)` — the literal sits below `+` in the first argument of a call -/
example : evalExpr Env.empty (.call "IFERROR".toList .flat [.bin .add one (.errLit "#N/A".toList), two] []) []
    = (.error (.xl .na), []) := by
  have h := literal_aborts_formula Env.empty (.callA "IFERROR".toList .flat [] (.binR .add one .hole) [two] [])
    "#N/A".toList ⟨⟨[], rfl⟩, ⟨_, rfl⟩, trivial⟩ []
  have hna : throwErrorLit "#N/A".toList = .xl .na := throwErrorLit_code .na
  rw [hna] at h
  exact h

/-- the literal text of each code raises that code (the nine texts of the generated table) -/
theorem literal_of_code (e : Err) : throwErrorLit e.code.toList = .xl e :=
  throwErrorLit_code e

example : throwErrorLit "#N/A".toList = .xl .na ∧ throwErrorLit "#DIV/0!".toList = .xl .div0 ∧
    throwErrorLit "#NULL!".toList = .xl .null ∧ throwErrorLit "#NUM!".toList = .xl .num ∧
    throwErrorLit "#REF!".toList = .xl .ref ∧ throwErrorLit "#VALUE!".toList = .xl .value ∧
    throwErrorLit "#NAME?".toList = .xl .name ∧ throwErrorLit "#ERROR!".toList = .xl .error :=
  ⟨literal_of_code .na, literal_of_code .div0, literal_of_code .null, literal_of_code .num,
   literal_of_code .ref, literal_of_code .value, literal_of_code .name, literal_of_code .error⟩

/-- any other literal text raises `#ERROR!` -/
theorem literal_of_other_text (t : List Char) (h : ∀ e : Err, String.ofList t ≠ e.code) :
    throwErrorLit t = .xl .error := by
  unfold throwErrorLit
  rw [(fromMessage_eq_iff (String.ofList t) .error).2 (Or.inr ⟨rfl, h⟩)]

example : ∀ e : Err, String.ofList "#FOO!".toList ≠ e.code := by
  intro e; cases e <;> decide

/-! ## 4. the top level -/

/-- `from_message` of a canonical code is that code's singleton, of any other message `#ERROR!` -/
theorem fromMessage_spec (m : String) (e : Err) :
    fromMessage m = e ↔ (m = e.code ∨ (e = .error ∧ ∀ e' : Err, m ≠ e'.code)) :=
  fromMessage_eq_iff m e

/-- a message that is not a key of the (generated) table gives `#ERROR!` -/
theorem fromMessage_default (m : String) (h : ∀ p ∈ Generated.errorTable, p.1 ≠ m) :
    fromMessage m = .error :=
  ErrorFlow.fromMessage_default m h

example : ∀ p ∈ Generated.errorTable, p.1 ≠ "boom" := by decide

/-- the generated table, the generated `str()` of the nine singletons and the canonical codes
    agree: `str(e)` is the code and `from_message(code)` is `e` again -/
theorem canonical_codes (e : Err) :
    singletonMessage e = e.code ∧ fromMessage e.code = e ∧ fromMessage (singletonMessage e) = e :=
  ⟨singletonMessage_eq_code e, fromMessage_code e, fromMessage_singleton e⟩

/-- an error VALUE that reaches the top is reported under `error` (its own code), `result` empty -/
theorem top_level_value (e : Err) : finish (.ok (.err e)) = { result := none, error := some e } := by
  simp only [finish, fromMessage_singleton]

/-- a RAISED error singleton that reaches the top is reported the same way -/
theorem top_level_raised (e : Err) : finish (.error (.xl e)) = { result := none, error := some e } := by
  simp only [finish, toErr_xl]

/-- any other exception is reported as `from_message(str(exception))`: `#ERROR!` unless the text
    happens to be a code -/
theorem top_level_exception (m : String) :
    finish (.error (.py m)) = { result := none, error := some (fromMessage m) } := rfl

/-- a value and a raise of the same error give the same record -/
theorem top_level (e : Err) :
    finish (.ok (.err e)) = { result := none, error := some e } ∧ finish (.error (.xl e)) = finish (.ok (.err e)) := by
  rw [top_level_value, top_level_raised]; exact ⟨rfl, rfl⟩

/-- the record of a non-empty formula that parses is `finish` of its outcome -/
theorem parseTop_record (env : Env) (s : List Char) (x : Expr)
    (hs : s ≠ []) (hp : parseFormula s = .ok x) : (parseTop env s).1 = finish (outcome env x) := by
  unfold parseTop
  have : s.isEmpty = false := by cases s <;> simp_all
  simp only [this, hp]
  rfl

/-- the record and the event log of a non-empty formula that parses -/
theorem parseTop_eq (env : Env) (s : List Char) (x : Expr)
    (hs : s ≠ []) (hp : parseFormula s = .ok x) :
    parseTop env s = (finish (evalExpr env x []).1, (evalExpr env x []).2) := by
  unfold parseTop
  have : s.isEmpty = false := by cases s <;> simp_all
  simp only [this, hp]
  rfl

/-- `Parser.parse` on a formula that evaluates to the error value `e`, or aborts with the raised
    singleton `e`: `{'result': None, 'error': code of e}` -/
theorem parse_reports_error (env : Env) (s : List Char) (x : Expr) (e : Err)
    (hs : s ≠ []) (hp : parseFormula s = .ok x)
    (h : outcome env x = .ok (.err e) ∨ outcome env x = .error (.xl e)) :
    (parseTop env s).1 = { result := none, error := some e } := by
  rw [parseTop_record env s x hs hp]
  rcases h with h | h <;> rw [h]
  · exact top_level_value e
  · exact top_level_raised e

/-! ## 5. the trapping builtins on values -/

open HotXL.Fn.Logic HotXL.Fn.Info

/-- ISERROR(v) is TRUE exactly for the error values -/
theorem iserror_spec (v : Value) : ISERROR [v] = .ok (.bool (isErr v).isSome) := by
  cases v <;> rfl

/-- ISNA(v) is TRUE exactly for `#N/A` -/
theorem isna_spec (v : Value) : ISNA [v] = .ok (.bool (decide (isErr v = some .na))) := by
  cases v with
  | err e => cases e <;> rfl
  | _ => rfl

/-- ISERR(v) is TRUE exactly for the error values other than `#N/A` -/
theorem iserr_spec (v : Value) :
    ISERR [v] = .ok (.bool ((isErr v).isSome && !decide (isErr v = some .na))) := by
  cases v with
  | err e => cases e <;> rfl
  | _ => rfl

/-- ISERROR = ISERR or ISNA, on every value -/
theorem iserror_split (v : Value) :
    ∃ a b c, ISERROR [v] = .ok (.bool a) ∧ ISERR [v] = .ok (.bool b) ∧ ISNA [v] = .ok (.bool c) ∧
      a = (b || c) := by
  refine ⟨_, _, _, iserror_spec v, iserr_spec v, isna_spec v, ?_⟩
  cases v with
  | err e => cases e <;> rfl
  | _ => rfl

/-- IFERROR(x, y) is `y` when `x` is an error value and `x` otherwise -/
theorem iferror_spec (x y : Value) :
    IFERROR [x, y] = .ok (match isErr x with | some _ => y | none => x) := by
  cases x <;> rfl

/-- IFERROR(x, y) = y for an error `x`; = x for every other `x` (so it is `y` exactly when `x` is
    an error, up to the coincidence `x = y`) -/
theorem iferror_iff (x y : Value) :
    (isErr x ≠ none → IFERROR [x, y] = .ok y) ∧ (isErr x = none → IFERROR [x, y] = .ok x) := by
  rw [iferror_spec]
  constructor <;> intro h
  · cases hx : isErr x with
    | none => exact absurd hx h
    | some e => rfl
  · rw [h]

/-- An ARRAY is a value, not an error - whatever it holds (`{1,2}/0`, a host range with error cells): the three predicates
    answer FALSE and IFERROR hands the array back; no trap fires for an error that is only an element. -/
theorem array_is_no_error (xs : List Value) (y : Value) :
    ISERROR [.arr xs] = .ok (.bool false) ∧ ISERR [.arr xs] = .ok (.bool false) ∧ ISNA [.arr xs] = .ok (.bool false) ∧
      IFERROR [.arr xs, y] = .ok (.arr xs) :=
  ⟨rfl, rfl, rfl, rfl⟩

example : ISERROR [.arr [.err .div0, .num (.int 1)]] = .ok (.bool false) ∧
    IFERROR [.arr [.err .na], .num (.int 777)] = .ok (.arr [.err .na]) := ⟨rfl, rfl⟩

/-- IFNA(x, y) is `y` when `x` is `#N/A` and `x` otherwise (other errors pass through) -/
theorem ifna_spec (x y : Value) :
    IFNA [x, y] = .ok (if isErr x = some .na then y else x) := by
  cases x with
  | err e => cases e <;> rfl
  | _ => rfl

/-- the number ERROR.TYPE gives to an error (`#ERROR!` is not in its table: `#N/A`) -/
def errorTypeValue : Err → Value
  | .null => .num (.int 1) | .div0 => .num (.int 2) | .value => .num (.int 3) | .ref => .num (.int 4)
  | .name => .num (.int 5) | .num => .num (.int 6) | .na => .num (.int 7) | .data => .num (.int 8)
  | .error => .err .na

/-- ERROR.TYPE on the eight codes of its table gives 1…8 (`#NULL! #DIV/0! #VALUE! #REF! #NAME? #NUM!
    #N/A #GETTING_DATA`), `#N/A` on `#ERROR!` -/
theorem error_type_spec (e : Err) : ERROR_TYPE [.err e] = .ok (errorTypeValue e) := by
  cases e <;> rfl

/-- ERROR.TYPE of a value that is not an error (and not a list, which is unhashable) is `#N/A` -/
theorem error_type_non_error (v : Value) (h : isErr v = none) (ha : ∀ xs, v ≠ .arr xs) :
    ERROR_TYPE [v] = .ok (.err .na) := by
  cases v with
  | err e => cases h
  | arr xs => exact absurd rfl (ha xs)
  | _ => rfl

/-! ## 6. the traps see every error value, also those produced by calls -/

/-- the six trapping builtins are in the (generated) registry -/
theorem traps_registered : ∀ n ∈ trapNames, Builtins.isRegistered (String.ofList n) = true := by
  decide

/-- whichever way the body of the function that a call resolves to produces an error — RETURNS the
    error value, RAISES the singleton, RAISES any other exception with message `m` (then
    `e = from_message m`) — `call_function` returns it as a VALUE and the call is logged; for a
    custom host function or a registered builtin alike (`resolve`) -/
theorem call_error_is_value (env : Env) (name : List Char) (f : HostFn) (args : List Value) (e : Err)
    (hf : resolve env name = some f) (he : yieldsErr (f args) = some e) (log : Log) :
    callFunction env name args log = (.ok (.err e), log ++ [.fn name args]) :=
  callFunction_error_is_value hf he log

/-- `resolve` is how `callFunction` finds the function: an instance function first, else a
    registered builtin (its model, a raise of the builtin being a raise of the body) -/
theorem resolve_spec (env : Env) (name : List Char) :
    (∀ f, env.custom name = some f → resolve env name = some f) ∧
    (∀ b, env.custom name = none → Builtins.isRegistered (String.ofList name) = true →
      Builtins.model? (String.ofList name) = some b →
      resolve env name = some (fun a => match b a with
        | .ok v => if isNoOpinion v then .error .unmodelled else .ok v
        | .error e => .error (.xl e))) ∧
    (∀ args log, callFunction env name args log =
      match resolve env name with
      | none => (.error (.xl .name), log)
      | some f =>
        match f args with
        | .ok v => (.ok v, log ++ [.fn name args])
        | .error .unmodelled => (.error .unmodelled, log)
        | .error x => (.ok (.err x.toErr), log ++ [.fn name args])) :=
  ⟨fun _ h => resolve_custom h, fun _ hc hr hm => resolve_builtin hc hr hm, fun _ _ => rfl⟩

/-- a call expression whose arguments evaluate and whose body produces an error (any of the three
    ways) evaluates to that error VALUE -/
theorem call_outcome_error (env : Env) (name : List Char) (kind : SeqKind) (a b : List Expr)
    (av bv : List Value) (f : HostFn) (e : Err)
    (ha : outcomes env a = .ok av) (hb : outcomes env b = .ok bv)
    (hf : resolve env name = some f) (he : yieldsErr (f (seqValues kind av bv)) = some e) :
    outcome env (.call name kind a b) = .ok (.err e) := by
  rw [outcome_call, ha, hb]
  simp only [bind, Except.bind]
  rw [callFunction_error_is_value hf he]

/-- the value of a call is whatever the body returns, for any arguments — error values among the
    arguments are handed to the body like any other value -/
theorem call_outcome_value (env : Env) (name : List Char) (kind : SeqKind) (a b : List Expr)
    (av bv : List Value) (f : HostFn) (v : Value)
    (ha : outcomes env a = .ok av) (hb : outcomes env b = .ok bv)
    (hf : resolve env name = some f) (hv : f (seqValues kind av bv) = .ok v) :
    outcome env (.call name kind a b) = .ok v := by
  rw [outcome_call, ha, hb]
  simp only [bind, Except.bind]
  rw [callFunction_value hf hv]

/-- every expression `x` that evaluates to an error value `e` — produced by an operator, by a call,
    by a variable, at any depth inside `x` — is observed by the six traps, provided no custom function
    shadows them: IFERROR gives the alternative, IFNA the alternative exactly for `#N/A`, ISERROR
    TRUE, ISERR / ISNA split on `#N/A`, ERROR.TYPE the number of the code -/
theorem traps_see_values (env : Env) (x y : Expr) (e : Err) (w : Value)
    (hx : outcome env x = .ok (.err e)) (hy : outcome env y = .ok w)
    (hs : ∀ n ∈ trapNames, env.custom n = none) :
    (isNoOpinion w = false → outcome env (.call "IFERROR".toList .flat [x, y] []) = .ok w) ∧
    (isNoOpinion (if e = .na then w else .err e) = false →
      outcome env (.call "IFNA".toList .flat [x, y] []) = .ok (if e = .na then w else .err e)) ∧
    outcome env (.call "ISERROR".toList .flat [x] []) = .ok (.bool true) ∧
    outcome env (.call "ISERR".toList .flat [x] []) = .ok (.bool (decide (e ≠ .na))) ∧
    outcome env (.call "ISNA".toList .flat [x] []) = .ok (.bool (decide (e = .na))) ∧
    outcome env (.call "ERROR.TYPE".toList .flat [x] []) = .ok (errorTypeValue e) := by
  have h1 := outcomes_one hx
  have h2 := outcomes_two hx hy
  refine ⟨?_, ?_, ?_, ?_, ?_, ?_⟩
  · intro hw
    rw [outcome_builtin_call (b := IFERROR) (hs _ (by decide)) (by decide) (by rfl) h2 hw]; rfl
  · intro hw
    rw [outcome_builtin_call (b := IFNA) (hs _ (by decide)) (by decide) (by rfl) h2 (by cases e <;> exact hw)]
    cases e <;> rfl
  · rw [outcome_builtin_call (b := ISERROR) (hs _ (by decide)) (by decide) (by rfl) h1 rfl]; rfl
  · rw [outcome_builtin_call (b := ISERR) (hs _ (by decide)) (by decide) (by rfl) h1 (by cases e <;> rfl)]
    cases e <;> rfl
  · rw [outcome_builtin_call (b := ISNA) (hs _ (by decide)) (by decide) (by rfl) h1 (by cases e <;> rfl)]
    cases e <;> rfl
  · rw [outcome_builtin_call (b := ERROR_TYPE) (hs _ (by decide)) (by decide) (by rfl) h1
      (by rw [error_type_spec]; cases e <;> rfl), error_type_spec]

/-- on an expression that evaluates to a value that is not an error the traps let it through:
    IFERROR / IFNA give the value itself, ISERROR / ISERR / ISNA are FALSE -/
theorem traps_pass_values (env : Env) (x y : Expr) (v w : Value)
    (hx : outcome env x = .ok v) (hv : isErr v = none) (hy : outcome env y = .ok w)
    (hs : ∀ n ∈ trapNames, env.custom n = none) :
    (isNoOpinion v = false → outcome env (.call "IFERROR".toList .flat [x, y] []) = .ok v) ∧
    (isNoOpinion v = false → outcome env (.call "IFNA".toList .flat [x, y] []) = .ok v) ∧
    outcome env (.call "ISERROR".toList .flat [x] []) = .ok (.bool false) ∧
    outcome env (.call "ISERR".toList .flat [x] []) = .ok (.bool false) ∧
    outcome env (.call "ISNA".toList .flat [x] []) = .ok (.bool false) := by
  have h1 := outcomes_one hx
  have h2 := outcomes_two hx hy
  refine ⟨?_, ?_, ?_, ?_, ?_⟩
  · intro hno
    rw [outcome_builtin_call (b := IFERROR) (hs _ (by decide)) (by decide) (by rfl) h2
      (by rw [iferror_spec, hv]; exact hno), iferror_spec, hv]
  · intro hno
    rw [outcome_builtin_call (b := IFNA) (hs _ (by decide)) (by decide) (by rfl) h2
      (by rw [ifna_spec, hv]; exact hno), ifna_spec, hv]; rfl
  · rw [outcome_builtin_call (b := ISERROR) (hs _ (by decide)) (by decide) (by rfl) h1
      (by rw [iserror_spec]; rfl), iserror_spec, hv]; rfl
  · rw [outcome_builtin_call (b := ISERR) (hs _ (by decide)) (by decide) (by rfl) h1
      (by rw [iserr_spec]; rfl), iserr_spec, hv]; rfl
  · rw [outcome_builtin_call (b := ISNA) (hs _ (by decide)) (by decide) (by rfl) h1
      (by rw [isna_spec]; rfl), isna_spec, hv]; rfl

/-- THE KEY CASE: the trapped expression is a function call whose body RETURNS an error or RAISES
    one (a custom host function or a registered builtin; e.g. `SUM(1/0)`, whose `inumbers` raises the
    error it meets).  The call evaluates to the error VALUE, so the traps see it. -/
theorem traps_see_calls (env : Env) (name : List Char) (kind : SeqKind) (a b : List Expr)
    (av bv : List Value) (f : HostFn) (e : Err) (y : Expr) (w : Value)
    (ha : outcomes env a = .ok av) (hb : outcomes env b = .ok bv)
    (hf : resolve env name = some f) (he : yieldsErr (f (seqValues kind av bv)) = some e)
    (hy : outcome env y = .ok w) (hs : ∀ n ∈ trapNames, env.custom n = none) :
    outcome env (.call name kind a b) = .ok (.err e) ∧
    (isNoOpinion w = false →
      outcome env (.call "IFERROR".toList .flat [.call name kind a b, y] []) = .ok w) ∧
    (isNoOpinion (if e = .na then w else .err e) = false →
      outcome env (.call "IFNA".toList .flat [.call name kind a b, y] []) = .ok (if e = .na then w else .err e)) ∧
    outcome env (.call "ISERROR".toList .flat [.call name kind a b] []) = .ok (.bool true) ∧
    outcome env (.call "ISERR".toList .flat [.call name kind a b] []) = .ok (.bool (decide (e ≠ .na))) ∧
    outcome env (.call "ISNA".toList .flat [.call name kind a b] []) = .ok (.bool (decide (e = .na))) ∧
    outcome env (.call "ERROR.TYPE".toList .flat [.call name kind a b] []) = .ok (errorTypeValue e) :=
  have hc := call_outcome_error env name kind a b av bv f e ha hb hf he
  ⟨hc, traps_see_values env _ y e w hc hy hs⟩

/-- `F1(F2(…Fn(x)…))` -/
def wrapCalls (names : List (List Char)) (x : Expr) : Expr :=
  names.foldr (fun n y => .call n .flat [y] []) x

/-- a one-argument function that hands an error argument on: returns it or raises it -/
def ErrPreserving (env : Env) (n : List Char) : Prop :=
  ∃ f, resolve env n = some f ∧ ∀ e, yieldsErr (f [.err e]) = some e

/-- NESTED calls: an error value produced at the bottom of a chain of calls of error-preserving
    functions (pass-through host functions, builtins that return the error, builtins that raise it)
    arrives at the top of the chain as the same error VALUE — hence is seen by the traps
    (`traps_see_values`) and propagated by the operators (`path_propagates`) -/
theorem nested_calls_carry_errors (env : Env) (names : List (List Char)) (x : Expr) (e : Err)
    (hn : ∀ n ∈ names, ErrPreserving env n) (hx : outcome env x = .ok (.err e)) :
    outcome env (wrapCalls names x) = .ok (.err e) := by
  induction names with
  | nil => exact hx
  | cons n ns ih =>
    obtain ⟨f, hf, hp⟩ := hn n (List.mem_cons_self ..)
    have ih' := ih (fun m hm => hn m (List.mem_cons_of_mem _ hm))
    exact call_outcome_error env n .flat [wrapCalls ns x] [] [.err e] [] f e (outcomes_one ih') rfl hf (hp e)

/-! ### route independence of the operators

  An operator node sees the outcomes of its operand expressions — values or raised exceptions — and
  nothing else of them: a variable, a cell, a call or a literal with the same outcome gives the same
  record, error code included (the model-side statement of the route layer, DESIGN.md 1.7). -/

/-- Operator nodes over operands with equal outcomes have equal records, from whichever logs the
    evaluations start. -/
theorem operator_sees_operand_outcomes (env : Env) (op : BinOp) {l l' r r' : Expr} (log log' : Log)
    (hl : outcome env l = outcome env l') (hr : outcome env r = outcome env r') :
    finish (evalExpr env (.bin op l r) log).1 = finish (evalExpr env (.bin op l' r') log').1 := by
  rw [evalExpr_fst, evalExpr_fst, Routes.bin_congr env op hl hr]

/-- The same for unary minus. -/
theorem negation_sees_operand_outcome (env : Env) {e e' : Expr} (log log' : Log)
    (h : outcome env e = outcome env e') :
    finish (evalExpr env (.neg e) log).1 = finish (evalExpr env (.neg e') log').1 := by
  rw [evalExpr_fst, evalExpr_fst, Routes.neg_congr env h]

/-- non-vacuity: the error value `#DIV/0!` as the value of a variable and as the result of `1/0`
    are the same operand to `+` -/
example :
    let env : Env := { Env.empty with vars := fun k => if k = ['x'] then some (.err .div0) else none }
    finish (evalExpr env (.bin .add (.var [['x']]) (.num (.int ['1']))) []).1 =
      finish (evalExpr env (.bin .add oneByZero (.num (.int ['1']))) [.var ['y']]).1 := by
  intro env
  exact operator_sees_operand_outcomes env .add [] [.var ['y']]
    ((Routes.var_route (by rfl) []).trans (outcome_oneByZero env).symm) rfl

/-! ### concrete formulas (non-vacuity; the cases that were wrong before the repairs) -/

/-- `SUM`, `N` and the host `ID` hand an error argument on (SUM by raising it) -/
example : ErrPreserving envH "SUM".toList ∧ ErrPreserving envH "N".toList ∧ ErrPreserving envH "ID".toList :=
  ⟨⟨_, envH_SUM, fun _ => rfl⟩,
   ⟨_, resolve_builtin (b := Fn.Info.N) (by decide) (by decide) (by rfl), fun _ => rfl⟩,
   ⟨_, resolve_custom (by rfl), fun _ => rfl⟩⟩

/-- `IFERROR(SUM(1/0), 0)` = 0, `ISERROR(SUM(1/0))`, `ERROR.TYPE(SUM(1/0))` = 2: an error RAISED inside
    a builtin is trapped -/
example :
    outcome envH (.call "IFERROR".toList .flat [.call "SUM".toList .flat [oneByZero] [], zero] []) = .ok (.num (.int 0)) ∧
    outcome envH (.call "ISERROR".toList .flat [.call "SUM".toList .flat [oneByZero] []] []) = .ok (.bool true) ∧
    outcome envH (.call "ERROR.TYPE".toList .flat [.call "SUM".toList .flat [oneByZero] []] []) = .ok (.num (.int 2)) := by
  have h := traps_see_calls envH "SUM".toList .flat [oneByZero] [] [.err .div0] [] _ .div0 zero (.num (.int 0))
    (outcomes_one (outcome_oneByZero envH)) rfl envH_SUM rfl rfl envH_no_shadow
  exact ⟨h.2.1 rfl, h.2.2.2.1, h.2.2.2.2.2.2⟩

/-- `IFERROR(RAISE_NUM(), 0)` = 0 and `IFERROR(PYRAISE(), 0)` = 0; `ERROR.TYPE(RAISE_NUM())` = 6;
    `PYRAISE()` itself is the VALUE `#ERROR!` -/
example :
    outcome envH (.call "IFERROR".toList .flat [.call "RAISE_NUM".toList .empty [] [], zero] []) = .ok (.num (.int 0)) ∧
    outcome envH (.call "ERROR.TYPE".toList .flat [.call "RAISE_NUM".toList .empty [] []] []) = .ok (.num (.int 6)) ∧
    outcome envH (.call "IFERROR".toList .flat [.call "PYRAISE".toList .empty [] [], zero] []) = .ok (.num (.int 0)) ∧
    outcome envH (.call "PYRAISE".toList .empty [] []) = .ok (.err .error) := by
  have h1 := traps_see_calls envH "RAISE_NUM".toList .empty [] [] [] [] _ .num zero (.num (.int 0))
    rfl rfl (resolve_custom (by rfl)) rfl rfl envH_no_shadow
  have h2 := traps_see_calls envH "PYRAISE".toList .empty [] [] [] [] _ .error zero (.num (.int 0))
    rfl rfl (resolve_custom (by rfl)) (by decide) rfl envH_no_shadow
  exact ⟨h1.2.1 rfl, h1.2.2.2.2.2.2, h2.2.1 rfl, h2.1⟩

/-- `ISERROR(ID(N(SUM(1/0))))`: the error crosses three nested calls -/
example : outcome envH (.call "ISERROR".toList .flat [wrapCalls ["ID".toList, "N".toList, "SUM".toList] oneByZero] [])
    = .ok (.bool true) := by
  have h := nested_calls_carry_errors envH ["ID".toList, "N".toList, "SUM".toList] oneByZero .div0
    (by
      intro n hn
      simp only [List.mem_cons, List.not_mem_nil, or_false] at hn
      rcases hn with rfl | rfl | rfl
      · exact ⟨_, resolve_custom (by rfl), fun _ => rfl⟩
      · exact ⟨_, resolve_builtin (b := Fn.Info.N) (by decide) (by decide) (by rfl), fun _ => rfl⟩
      · exact ⟨_, envH_SUM, fun _ => rfl⟩)
    (outcome_oneByZero envH)
  exact (traps_see_values envH _ zero .div0 _ h rfl envH_no_shadow).2.2.1

/-- `IFERROR(1, 0)` = 1 and `IFNA(1/0, 0)` = `#DIV/0!`: the side conditions `isNoOpinion … = false` of
    the conjuncts that return an argument hold by computation for known values -/
example :
    outcome envH (.call "IFERROR".toList .flat [one, zero] []) = .ok (.num (.int 1)) ∧
    outcome envH (.call "IFNA".toList .flat [oneByZero, zero] []) = .ok (.err .div0) :=
  ⟨(traps_pass_values envH one zero (.num (.int 1)) (.num (.int 0)) rfl rfl rfl envH_no_shadow).1 rfl,
   (traps_see_values envH oneByZero zero .div0 (.num (.int 0)) (outcome_oneByZero envH) rfl envH_no_shadow).2.1 rfl⟩

/-! whole formulas through the lexer, the parser, the evaluator and `finish` -/

/-- `(1/0)=1` reports `#DIV/0!` (was: FALSE) -/
example : (parseTop Env.empty "(1/0)=1".toList).1 = { result := none, error := some .div0 } := by
  refine parse_reports_error Env.empty _ (.bin .eq oneByZero one) .div0 (by decide) (parse_eq_of_beq (by decide +kernel)) (Or.inl ?_)
  rw [outcome_bin, outcome_oneByZero]; rfl

/-- `(1/0)&"a"` reports `#DIV/0!` (was: the text `#DIV/0!a`) -/
example : (parseTop Env.empty "(1/0)&\"a\"".toList).1 = { result := none, error := some .div0 } := by
  refine parse_reports_error Env.empty _ (.bin .amp oneByZero (.str ['a'])) .div0 (by decide) (parse_eq_of_beq (by decide +kernel)) (Or.inl ?_)
  rw [outcome_bin, outcome_oneByZero]; rfl

/-- `-(1/0)` reports `#DIV/0!` (was: `#ERROR!` from a TypeError) -/
example : (parseTop Env.empty "-(1/0)".toList).1 = { result := none, error := some .div0 } := by
  refine parse_reports_error Env.empty _ (.neg oneByZero) .div0 (by decide) (parse_eq_of_beq (by decide +kernel)) (Or.inl ?_)
  rw [outcome_neg, outcome_oneByZero]; rfl

/-- `IFERROR(SUM(1/0),0)` is 0 (was: `#DIV/0!` raised through the parser) -/
example : (parseTop Env.empty "IFERROR(SUM(1/0),0)".toList).1 = { result := some (.num (.int 0)), error := none } := by
  rw [parseTop_record Env.empty _
    (.call "IFERROR".toList .flat [.call "SUM".toList .flat [oneByZero] [], zero] []) (by decide)
    (parse_eq_of_beq (by decide +kernel))]
  have h := traps_see_calls Env.empty "SUM".toList .flat [oneByZero] [] [.err .div0] [] _ .div0 zero (.num (.int 0))
    (outcomes_one (outcome_oneByZero _)) rfl
    (resolve_builtin (b := Fn.Agg.SUM) rfl (by decide) (by rfl)) rfl rfl (fun _ _ => rfl)
  rw [h.2.1 rfl]; rfl

/-- `#N/A+1` reports `#N/A`: the literal raises -/
example : (parseTop Env.empty "#N/A+1".toList).1 = { result := none, error := some .na } := by
  refine parse_reports_error Env.empty _ (.bin .add (.errLit "#N/A".toList) one) .na (by decide) (parse_eq_of_beq (by decide +kernel)) (Or.inr ?_)
  have hna : throwErrorLit "#N/A".toList = .xl .na := literal_of_code .na
  rw [outcome_bin, outcome_errLit, hna]; rfl

/-- `(1/0)+#N/A` reports `#N/A`, not `#DIV/0!`: the raise of the literal on the right beats the error
    VALUE already computed on the left (`abort_propagates`; `path_propagates` does not apply since the
    right sibling does not evaluate to a value) -/
example : (parseTop Env.empty "(1/0)+#N/A".toList).1 = { result := none, error := some .na } := by
  refine parse_reports_error Env.empty _ (.bin .add oneByZero (.errLit "#N/A".toList)) .na (by decide)
    (parse_eq_of_beq (by decide +kernel)) (Or.inr ?_)
  have hna : throwErrorLit "#N/A".toList = .xl .na := literal_of_code .na
  rw [outcome_bin, outcome_oneByZero, outcome_errLit, hna]; rfl

/-- `IFERROR(#N/A,1)` reports `#N/A` and not 1: an error LITERAL aborts the formula before IFERROR is
    called (no event is logged) -/
example : parseTop Env.empty "IFERROR(#N/A,1)".toList = ({ result := none, error := some .na }, []) := by
  have hp : parseFormula "IFERROR(#N/A,1)".toList
      = .ok (.call "IFERROR".toList .flat [.errLit "#N/A".toList, one] []) :=
    parse_eq_of_beq (by decide +kernel)
  have h : evalExpr Env.empty (.call "IFERROR".toList .flat [.errLit "#N/A".toList, one] []) []
      = (.error (throwErrorLit "#N/A".toList), []) :=
    literal_aborts_formula Env.empty (.callA "IFERROR".toList .flat [] .hole [one] []) "#N/A".toList
      ⟨⟨[], rfl⟩, trivial⟩ []
  have hna : throwErrorLit "#N/A".toList = .xl .na := literal_of_code .na
  rw [parseTop_eq Env.empty _ _ (by decide) hp, h, hna, top_level_raised]

/-- `IFERROR(NA(),1)` is 1 — the error VALUE returned by `NA()` is trapped — with both calls logged -/
example : parseTop Env.empty "IFERROR(NA(),1)".toList =
    ({ result := some (.num (.int 1)), error := none },
     [.fn "NA".toList [], .fn "IFERROR".toList [.err .na, .num (.int 1)]]) := by
  have hp : parseFormula "IFERROR(NA(),1)".toList = .ok (.call "IFERROR".toList .flat [naCall, one] []) :=
    parse_eq_of_beq (by decide +kernel)
  rw [parseTop_eq Env.empty _ _ (by decide) hp]
  rfl

/-! ## 8. what the model does not say

Where a builtin model does not compute its result (dateutil text, the text of a float, a square
root, …) it answers with a "no opinion" value.  That answer is absorbing: it never flows on into
an operator or a trap as if it were a known non-error, so none of the theorems above is ever
applied to a value the model merely did not know. -/

/-- no value in flight is a no-opinion value unless the host supplied it: a call of a name the host
    did not register yields a known value (or the evaluation is `unmodelled`), and no operator
    yields a foreign value; a comparison of two lists / host objects is left to Python -/
theorem values_in_flight_are_known :
    (∀ (env : Env) (name : List Char) (args : List Value) (log log' : Log) (v : Value),
      env.custom name = none → callFunction env name args log = (.ok v, log') → isNoOpinion v = false) ∧
    (∀ (op : BinOp) (l r v : Value), binOfOp op l r = .ok v → ∀ t, v ≠ .other t) ∧
    (∀ (op : CmpOp) (l r : Value), isForeign l = true → isForeign r = true →
      evalLogicG op l r = .ok (.other "comparison-of-two-foreign-values")) :=
  ⟨NoOpinion.builtin_value_known, NoOpinion.binOfOp_value_not_other, NoOpinion.cmp_two_foreign⟩

/-- non-vacuity: `DATEVALUE("abc")` (dateutil text: no opinion) under `>` inside a trap makes the
    whole evaluation unmodelled instead of a wrong opinion -/
example : (parseTop Env.empty "IFNA(1>DATEVALUE(\"abc\"),2)".toList).1 =
    { result := some (.other "unmodelled-builtin"), error := none } := by
  have hp : parseFormula "IFNA(1>DATEVALUE(\"abc\"),2)".toList
      = .ok (.call "IFNA".toList .flat
          [.bin .gt one (.call "DATEVALUE".toList .flat [.str "abc".toList] []), .num (.int ['2'])] []) :=
    parse_eq_of_beq (by decide +kernel)
  rw [parseTop_eq Env.empty _ _ (by decide) hp]
  rfl

end HotXL.Props.C08
