/-
  C06 — arithmetic and concatenation follow the implicit type-conversion table.
-/
import HotXL.Model.Operators

namespace HotXL.Props.C06
open HotXL HotXL.Ops

/-- an error operand is returned as is (left first) -/
theorem arith_left_error (fuel : Nat) (op : ArithOp) (e : Err) (r : Value) :
    evalArith fuel op (.err e) r = .ok (.err e) := by
  unfold evalArith; simp [isErr]

end HotXL.Props.C06
