/-
  C06 — arithmetic and concatenation follow the implicit type-conversion table.

  "For + - * / each operand acts through its numeric value - numbers as themselves, TRUE/FALSE as
   1/0, blank as 0, text spelling a number as that number, dates as their serial - and the result is
   the exact arithmetic on those values, returned as a date exactly where the conversion table says
   so (date+-number, number+date, ...) or #NUM! if that date would precede 1900; text that is neither
   number nor date gives #VALUE! and a zero divisor #DIV/0!.  + and * are commutative, arrays combine
   element-wise with scalars and with arrays of equal length and give #VALUE! on a length mismatch,
   and & joins its operands as text: text verbatim, integers as their digits, blank as nothing."

  The theorems are about `HotXL.Ops.evalArith` / `evalAmp` (model of `evaluate_arithmetic` in
  hotxlfp/formulas/operators.py and of the `&` branch of grammarparser/parser.py) over the
  GENERATED table `HotXL.Generated.convTable`.  Section 1 writes the statement down independently
  of that table (`spec`); Section 2 reads the generated table against it by `decide`.

  Vocabulary from `HotXL.Lemmas.Operators`: `NonArr v` (v is not an array), `depth v` (array
  nesting depth), `ErrFree v` (no error value inside `v`), `eraseErr v` (every error code inside `v`
  replaced by `#VALUE!`).  From `HotXL.Lemmas.Dates`: `serialQ`, `serialNum`, `dateOfSerial` (closed
  forms of `serialize_date` / `parse_date`, proved equal to the model's by `decide` on the generated
  constants).

  Floats are exact rationals (`Num.flt q`): "exact arithmetic" is meant literally here; float
  rounding is outside the model (trusted base of the harness).
-/
import HotXL.Model.Operators
import HotXL.Lemmas.PyNum
import HotXL.Lemmas.Dates
import HotXL.Lemmas.Operators

namespace HotXL.Props.C06
open HotXL HotXL.Ops

/-- an error operand is returned as is (left first) -/
theorem arith_left_error (fuel : Nat) (op : ArithOp) (e : Err) (r : Value) :
    evalArith fuel op (.err e) r = .ok (.err e) := by
  unfold evalArith; simp [isErr]

/-! ## 1. The statement, written independently of the conversion table -/

/-- the operand classes of the statement; `text` = text that is neither a number nor a date
    (and any foreign host object) -/
inductive Cls where
  | number | date | blank | text | error
  deriving DecidableEq, Repr

/-- a scalar operand: anything but an array -/
abbrev Scalar (v : Value) : Prop := NonArr v

/-- the Python number through which an operand acts: numbers as themselves, TRUE/FALSE as 1/0,
    blank as 0, text spelling a number as that number (`int(s)`, else `float(s)`), dates and ISO date
    text as their serial; `none` for other text, errors, foreign objects -/
def numOf : Value → Option Num
  | .num n => some n
  | .bool b => some (.int (if b then 1 else 0))
  | .blank => some (.int 0)
  | .date us => some (Dates.serialNum us)
  | .str s =>
    match toNumberText s with
    | .num n => some n
    | .text => (isoDate? s).map Dates.serialNum
  | _ => none

/-- the numeric value as an exact rational -/
def numVal (v : Value) : Option Rat := (numOf v).map Num.toRat

def classify : Value → Cls
  | .num _ => .number
  | .bool _ => .number
  | .blank => .blank
  | .date _ => .date
  | .err _ => .error
  | .str s =>
    match toNumberText s with
    | .num _ => .number
    | .text => if (isoDate? s).isSome then .date else .text
  | _ => .text

/-- where the result is returned as a date — read off the statement, not off the table:
    for `+ - *`: number∘date, date∘number, date∘blank, blank∘date; for `/`: number/date, date/number -/
def rewraps : ArithOp → Cls → Cls → Bool
  | .div, .number, .date => true
  | .div, .date, .number => true
  | .div, _, _ => false
  | _, .number, .date => true
  | _, .date, .number => true
  | _, .date, .blank => true
  | _, .blank, .date => true
  | _, _, _ => false

/-- exact arithmetic on rationals -/
def ratOp : ArithOp → Rat → Rat → Rat
  | .add, x, y => x + y
  | .sub, x, y => x - y
  | .mul, x, y => x * y
  | .div, x, y => x / y

/-- the exact result as a Python number: `int ∘ int` stays `int` for `+ - *`, everything else
    (in particular every `/`) is a float -/
def exact : ArithOp → Num → Num → Num
  | .add, .int a, .int b => .int (a + b)
  | .sub, .int a, .int b => .int (a - b)
  | .mul, .int a, .int b => .int (a * b)
  | op, x, y => .flt (ratOp op (Num.toRat x) (Num.toRat y))

/-- a serial number returned as a date: `#NUM!` below 0 (the date would precede 1900); a Python
    exception (`OverflowError`, shown as `#ERROR!`) beyond 9999-12-31, i.e. from 2958464 days
    after 1900-01-01 on -/
def asDate (q : Rat) : Res :=
  match Dates.dateOfSerial q with
  | none => .ok (.err .num)
  | some us => if us < 2958464 * 86400000000 then .ok (.date us) else .error .error

/-- the statement for scalar operands: error operands first (left before right), `#VALUE!` when an
    operand has no numeric value, `#DIV/0!` for a zero divisor, otherwise the exact result, as a
    date exactly on `rewraps` -/
def spec (op : ArithOp) (a b : Value) : Res :=
  match a, b with
  | .err e, _ => .ok (.err e)
  | _, .err e => .ok (.err e)
  | a, b =>
    match numOf a, numOf b with
    | some x, some y =>
      if op = .div ∧ Num.toRat y = 0 then .ok (.err .div0)
      else if rewraps op (classify a) (classify b) then asDate (Num.toRat (exact op x y))
      else .ok (.num (exact op x y))
    | _, _ => .ok (.err .value)

/-- the text an operand of `&` contributes, for the operands the statement fixes: text verbatim,
    integers as their decimal digits (`PyNum.intToDec`: `-` and the digits without leading zeros —
    `Lemmas.PyNum.pyInt?_intToDec`), blank as nothing -/
def textOf : Value → Option (List Char)
  | .str s => some s
  | .num (.int i) => some (PyNum.intToDec i)
  | .blank => some []
  | _ => none

/-! ## 2. The generated table read against the statement -/

def tyCls : Ty → Cls
  | .number => .number | .date => .date | .none => .blank | .string => .text | .error => .error

/-- the converter the statement requires for an operand class (as the extractor names it):
    numbers untouched, dates serialised, blank replaced by 0 -/
def convOf : Cls → Option String
  | .number => some "none" | .date => some "serialize_date" | .blank => some "zero" | _ => none

/-- `IMPLICIT_DATA_TYPE_CONVERSIONS` (as extracted from /repo) has a cell exactly for the classes
    number/date/blank on both sides; its `left`/`right` converters are the ones the statement
    requires for the two classes, and it has the `result: parse_date` key exactly on `rewraps` -/
theorem table_cells (op : ArithOp) (lt rt : Ty) :
    convLookup op lt rt =
      (match convOf (tyCls lt), convOf (tyCls rt) with
       | some l, some r => some (l, r, if rewraps op (tyCls lt) (tyCls rt) then "parse_date" else "absent")
       | _, _ => none) := by
  cases op <;> cases lt <;> cases rt <;> decide +kernel

/-- the table has a row exactly for the left classes number/date/blank -/
theorem table_rows (op : ArithOp) (lt : Ty) : leftTypeKnown op lt = (convOf (tyCls lt)).isSome := by
  cases op <;> cases lt <;> decide +kernel

/-- `datetime.max` lies 2958464 days after 1900-01-01 (exclusive bound of `parse_date` results) -/
theorem year_9999_bound : usEnd = 2958464 * 86400000000 := by decide +kernel

/-! ## 3. Scalars -/

private def opCls : Operand → Cls
  | .number _ => .number | .date _ => .date | .none => .blank | .string _ => .text | .error _ => .text

private def opNum : Operand → Option Num
  | .number n => some n | .date us => some (Dates.serialNum us) | .none => some (.int 0) | _ => none

private theorem classify_eq (v : Value) (ha : NonArr v) (he : isErr v = none) :
    classify v = opCls (valueAndType v) := by
  cases v with
  | str s =>
    simp only [classify, valueAndType]
    cases toNumberText s with
    | num n => rfl
    | text => cases isoDate? s <;> rfl
  | arr xs => exact absurd rfl (ha xs)
  | err e => simp [isErr] at he
  | _ => rfl

private theorem numOf_eq (v : Value) (ha : NonArr v) (he : isErr v = none) :
    numOf v = opNum (valueAndType v) := by
  cases v with
  | str s =>
    simp only [numOf, valueAndType]
    cases toNumberText s with
    | num n => rfl
    | text => cases isoDate? s <;> rfl
  | arr xs => exact absurd rfl (ha xs)
  | err e => simp [isErr] at he
  | _ => rfl

private theorem applyOp_eq (op : ArithOp) (x y : Num) :
    applyOp op x y = if op = .div ∧ Num.toRat y = 0 then none else some (exact op x y) := by
  cases op <;> cases x <;> cases y <;>
    simp [applyOp, exact, numAdd, numSub, numMul, numDiv, Num.isZero, ratOp]

private theorem parseDateValue_eq (q : Rat) :
    (match parseDateValue q with | some v => (.ok v : Res) | none => .error .error) = asDate q := by
  unfold parseDateValue asDate
  rw [Dates.parseNum_eq, year_9999_bound]
  cases Dates.dateOfSerial q with
  | none => rfl
  | some us => by_cases h : us < 2958464 * 86400000000 <;> simp only [h, ↓reduceIte]

/-- what a table cell with `result` key `w` computes, in the statement's terms -/
private theorem cell_close (op : ArithOp) (x y : Num) (w : Bool) :
    (match applyOp op x y with
     | some n =>
       (match applyResult (if w = true then "parse_date" else "absent") n with
        | some v => (.ok v : Res)
        | none => .error .error)
     | none => .ok (.err .div0)) =
    if op = .div ∧ Num.toRat y = 0 then .ok (.err .div0)
    else if w = true then asDate (Num.toRat (exact op x y)) else .ok (.num (exact op x y)) := by
  rw [applyOp_eq]
  by_cases h : op = .div ∧ Num.toRat y = 0
  · simp only [h, and_self, ↓reduceIte]
  · simp only [h, ↓reduceIte]
    cases w
    · simp only [Bool.false_eq_true, ↓reduceIte, applyResult]
    · simp only [↓reduceIte, applyResult]
      exact parseDateValue_eq _

private theorem spec_nonerr (op : ArithOp) (a b : Value) (ha : isErr a = none) (hb : isErr b = none) :
    spec op a b =
      (match numOf a, numOf b with
       | some x, some y =>
         if op = .div ∧ Num.toRat y = 0 then .ok (.err .div0)
         else if rewraps op (classify a) (classify b) then asDate (Num.toRat (exact op x y))
         else .ok (.num (exact op x y))
       | _, _ => .ok (.err .value)) := by
  cases a <;> cases b <;> first | rfl | (simp [isErr] at ha hb)

private theorem spec_err_left (op : ArithOp) (e : Err) (b : Value) : spec op (.err e) b = .ok (.err e) := by
  cases b <;> rfl

private theorem spec_err_right (op : ArithOp) (a : Value) (e : Err) (h : isErr a = none) :
    spec op a (.err e) = .ok (.err e) := by
  cases a <;> first | rfl | simp [isErr] at h

/-- the 5 × 5 class cells, for all four operators at once: each is closed by the generated table
    entry (`table_rows`, `table_cells`) and the converters' closed forms -/
private theorem arithScalar_spec (op : ArithOp) (a b : Value) (ha : NonArr a) (hb : NonArr b)
    (hea : isErr a = none) (heb : isErr b = none) : arithScalar op a b = spec op a b := by
  rw [spec_nonerr op a b hea heb, classify_eq a ha hea, classify_eq b hb heb, numOf_eq a ha hea,
    numOf_eq b hb heb]
  unfold arithScalar
  generalize valueAndType a = lo
  generalize valueAndType b = ro
  simp only [table_rows, table_cells]
  cases lo <;> cases ro <;>
    simp only [Operand.ty, tyCls, convOf, opCls, opNum, applyConv, Option.isSome, Bool.not_true,
      Bool.not_false, Bool.false_eq_true, ↓reduceIte]
  all_goals first
    | exact cell_close _ _ _ _
    | (simp only [Dates.serialize_eq]; exact cell_close _ _ _ _)

/-- SCALARS.  For every operator, every two non-array operands and every fuel,
    `evaluate_arithmetic` returns exactly what the statement says (`spec`): the left error, else the
    right error, else `#VALUE!` if an operand has no numeric value, else `#DIV/0!` for `/` by a zero
    value, else the exact result on the numeric values (int∘int stays int for `+ - *`, float
    otherwise), re-wrapped as a date exactly in the cells number∘date, date∘number, date∘blank,
    blank∘date (for `/` only number/date and date/number) with `#NUM!` for a negative serial. -/
theorem scalar_spec (fuel : Nat) (op : ArithOp) (a b : Value) (ha : Scalar a) (hb : Scalar b) :
    evalArith fuel op a b = spec op a b := by
  cases hea : isErr a with
  | some e => rw [isErr_eq_some hea, evalArith_err_left, spec_err_left]
  | none =>
    cases heb : isErr b with
    | some e => rw [isErr_eq_some heb, evalArith_err_right _ _ _ _ hea, spec_err_right _ _ _ hea]
    | none => rw [evalArith_scalar fuel op a b hea heb ha hb, arithScalar_spec op a b ha hb hea heb]

/-- the Python number `exact` has the value of the exact rational operation -/
theorem exact_value (op : ArithOp) (x y : Num) :
    Num.toRat (exact op x y) = ratOp op (Num.toRat x) (Num.toRat y) := by
  cases op <;> cases x <;> cases y <;>
    simp [exact, ratOp, Num.toRat]

/-- outside the date cells and away from a zero divisor, two operands with numeric values `x`, `y`
    give the number `x ∘ y` exactly -/
theorem scalar_number_result (fuel : Nat) (op : ArithOp) (a b : Value) (x y : Rat)
    (ha : Scalar a) (hb : Scalar b) (hx : numVal a = some x) (hy : numVal b = some y)
    (hz : ¬ (op = .div ∧ y = 0)) (hw : rewraps op (classify a) (classify b) = false) :
    ∃ n, evalArith fuel op a b = .ok (.num n) ∧ Num.toRat n = ratOp op x y := by
  have hea : isErr a = none := by cases a <;> first | rfl | simp [numVal, numOf] at hx
  have heb : isErr b = none := by cases b <;> first | rfl | simp [numVal, numOf] at hy
  rw [scalar_spec fuel op a b ha hb, spec_nonerr op a b hea heb]
  unfold numVal at hx hy
  cases hxa : numOf a with
  | none => simp [hxa] at hx
  | some p =>
    cases hyb : numOf b with
    | none => simp [hyb] at hy
    | some r =>
      simp only [hxa, hyb, Option.map_some, Option.some.injEq] at hx hy
      subst hx; subst hy
      exact ⟨exact op p r, by simp only [hz, hw, ↓reduceIte, Bool.false_eq_true], exact_value op p r⟩

example : ∃ n, evalArith 0 .sub (.str "1.5".toList) (.bool true) = .ok (.num n) ∧ Num.toRat n = 1 / 2 := by
  obtain ⟨n, h1, h2⟩ := scalar_number_result 0 .sub (.str "1.5".toList) (.bool true) (3 / 2) 1
    (fun _ h => by cases h) (fun _ h => by cases h) (by decide +kernel) (by decide +kernel)
    (by decide) (by decide +kernel)
  exact ⟨n, h1, by rw [h2]; norm_num [ratOp]⟩

/-- whole numbers stay whole numbers under `+ - *` -/
theorem int_arith (fuel : Nat) (i j : Int) :
    evalArith fuel .add (.num (.int i)) (.num (.int j)) = .ok (.num (.int (i + j))) ∧
    evalArith fuel .sub (.num (.int i)) (.num (.int j)) = .ok (.num (.int (i - j))) ∧
    evalArith fuel .mul (.num (.int i)) (.num (.int j)) = .ok (.num (.int (i * j))) := by
  refine ⟨?_, ?_, ?_⟩ <;>
    rw [scalar_spec _ _ _ _ (fun _ h => by cases h) (fun _ h => by cases h)] <;> rfl

/-- text that is neither a number nor a date (or any operand without a numeric value) gives
    `#VALUE!`, whatever the other non-error operand is -/
theorem value_error (fuel : Nat) (op : ArithOp) (a b : Value) (ha : Scalar a) (hb : Scalar b)
    (hea : isErr a = none) (heb : isErr b = none) (h : numVal a = none ∨ numVal b = none) :
    evalArith fuel op a b = .ok (.err .value) := by
  rw [scalar_spec fuel op a b ha hb, spec_nonerr op a b hea heb]
  unfold numVal at h
  rcases h with h | h
  · rw [Option.map_eq_none_iff] at h; rw [h]
  · rw [Option.map_eq_none_iff] at h; rw [h]
    cases numOf a <;> rfl

example : evalArith 0 .mul (.num (.int 2)) (.str "abc".toList) = .ok (.err .value) :=
  value_error 0 .mul _ _ (fun _ h => by cases h) (fun _ h => by cases h) rfl rfl
    (Or.inr (by decide +kernel))

/-- DIV/0.  A divisor whose numeric value is 0 (0, 0.0, FALSE, blank, "0", …) gives `#DIV/0!`
    whenever the dividend has a numeric value -/
theorem div_zero (fuel : Nat) (a b : Value) (x : Rat) (ha : Scalar a) (hb : Scalar b)
    (hx : numVal a = some x) (hy : numVal b = some 0) :
    evalArith fuel .div a b = .ok (.err .div0) := by
  have hea : isErr a = none := by cases a <;> first | rfl | simp [numVal, numOf] at hx
  have heb : isErr b = none := by cases b <;> first | rfl | simp [numVal, numOf] at hy
  rw [scalar_spec fuel .div a b ha hb, spec_nonerr .div a b hea heb]
  unfold numVal at hx hy
  cases hxa : numOf a with
  | none => simp [hxa] at hx
  | some p =>
    cases hyb : numOf b with
    | none => simp [hyb] at hy
    | some r =>
      simp only [hyb, Option.map_some, Option.some.injEq] at hy
      simp only [hy, and_self, ↓reduceIte]

example (fuel : Nat) :
    evalArith fuel .div (.num (.int 7)) (.num (.int 0)) = .ok (.err .div0) ∧
    evalArith fuel .div (.num (.int 7)) (.num (.flt 0)) = .ok (.err .div0) ∧
    evalArith fuel .div (.bool true) (.bool false) = .ok (.err .div0) ∧
    evalArith fuel .div (.str "2.5".toList) .blank = .ok (.err .div0) ∧
    evalArith fuel .div (.date 86400000000) (.str "0".toList) = .ok (.err .div0) := by
  refine ⟨?_, ?_, ?_, ?_, ?_⟩
  · exact div_zero fuel _ _ 7 (fun _ h => by cases h) (fun _ h => by cases h) (by decide +kernel) (by decide +kernel)
  · exact div_zero fuel _ _ 7 (fun _ h => by cases h) (fun _ h => by cases h) (by decide +kernel) (by decide +kernel)
  · exact div_zero fuel _ _ 1 (fun _ h => by cases h) (fun _ h => by cases h) (by decide +kernel) (by decide +kernel)
  · exact div_zero fuel _ _ (5 / 2) (fun _ h => by cases h) (fun _ h => by cases h) (by decide +kernel) (by decide +kernel)
  · exact div_zero fuel _ _ 2 (fun _ h => by cases h) (fun _ h => by cases h) (by decide +kernel) (by decide +kernel)

/-! ## 4. Dates -/

/-- the value of the serial as a Python number is the closed-form serial -/
theorem toRat_serialNum (us : Int) : Num.toRat (Dates.serialNum us) = Dates.serialQ us := by
  unfold Dates.serialNum
  by_cases h : us = 0
  · simp [h, Dates.serialQ, Num.toRat]
  · simp [h, Num.toRat]

/-- date + number in closed form, no side conditions: the serial `serial d + n` returned as a
    date (`asDate`: `#NUM!` below 0, 1900-01-01 below 1, day `serial-1` up to 60, `serial-2` above) -/
theorem date_plus_number (fuel : Nat) (d : Int) (n : Num) :
    evalArith fuel .add (.date d) (.num n) = asDate (Dates.serialQ d + Num.toRat n) := by
  rw [scalar_spec _ _ _ _ (fun _ h => by cases h) (fun _ h => by cases h)]
  show asDate (Num.toRat (exact .add (Dates.serialNum d) n)) = _
  rw [exact_value, toRat_serialNum]; rfl

/-- DATE SHIFT.  date + number (in either order) is the date `d'` whose serial is
    `serial d + n`, for any datetime `d'` from 1900-01-01 to 9999-12-31 with that serial
    (microsecond resolution; `serialQ` is the closed form of `serialize_date`) -/
theorem date_shift (fuel : Nat) (d : Int) (n : Num) (d' : Int) (h0 : 0 ≤ d')
    (hr : d' < 2958464 * 86400000000) (hs : Dates.serialQ d + Num.toRat n = Dates.serialQ d') :
    evalArith fuel .add (.date d) (.num n) = .ok (.date d') ∧
    evalArith fuel .add (.num n) (.date d) = .ok (.date d') := by
  have e1 : asDate (Num.toRat (exact .add (Dates.serialNum d) n)) = .ok (.date d') := by
    rw [exact_value, toRat_serialNum]
    show asDate (Dates.serialQ d + Num.toRat n) = _
    rw [hs]; unfold asDate; rw [Dates.dateOfSerial_serialQ d' h0]
    simp only [hr, ↓reduceIte]
  have e2 : asDate (Num.toRat (exact .add n (Dates.serialNum d))) = .ok (.date d') := by
    rw [exact_value, toRat_serialNum]
    show asDate (Num.toRat n + Dates.serialQ d) = _
    rw [Rat.add_comm, hs]; unfold asDate; rw [Dates.dateOfSerial_serialQ d' h0]
    simp only [hr, ↓reduceIte]
  constructor
  · rw [scalar_spec _ _ _ _ (fun _ h => by cases h) (fun _ h => by cases h)]
    exact e1
  · rw [scalar_spec _ _ _ _ (fun _ h => by cases h) (fun _ h => by cases h)]
    exact e2

/-- from 1900-03-01 on, adding the whole number `i` to a datetime moves it by exactly `i` days
    (any time of day; the result must stay between 1900-03-01 and 9999-12-31) -/
theorem date_shift_days (fuel : Nat) (d i : Int) (h1 : 59 * 86400000000 ≤ d)
    (h2 : 59 * 86400000000 ≤ d + i * 86400000000) (h3 : d + i * 86400000000 < 2958464 * 86400000000) :
    evalArith fuel .add (.date d) (.num (.int i)) = .ok (.date (d + i * 86400000000)) :=
  (date_shift fuel d (.int i) _ (by omega) h3 (Dates.serialQ_add_days d i h1 h2)).1

/-- 2020-01-15T06:00 (43843.25 days after 1900-01-01) + 10 = 2020-01-25T06:00 -/
example : evalArith 0 .add (.date 3788056800000000) (.num (.int 10)) = .ok (.date 3788920800000000) :=
  date_shift_days 0 3788056800000000 10 (by decide) (by decide) (by decide)

/-- a date result whose serial would be negative is `#NUM!`, e.g. number − date -/
theorem date_before_1900 (fuel : Nat) (d : Int) (n : Num) (h : Num.toRat n - Dates.serialQ d < 0) :
    evalArith fuel .sub (.num n) (.date d) = .ok (.err .num) := by
  rw [scalar_spec _ _ _ _ (fun _ h => by cases h) (fun _ h => by cases h)]
  show asDate (Num.toRat (exact .sub n (Dates.serialNum d))) = _
  rw [exact_value, toRat_serialNum]
  show asDate (Num.toRat n - Dates.serialQ d) = _
  unfold asDate Dates.dateOfSerial
  simp only [h, ↓reduceIte]

example : evalArith 0 .sub (.num (.int 1)) (.date 3788056800000000) = .ok (.err .num) :=
  date_before_1900 0 _ _ (by decide +kernel)

/-- DATE − DATE is a plain number: the difference of the two serials -/
theorem date_minus_date (fuel : Nat) (a b : Int) :
    ∃ n, evalArith fuel .sub (.date a) (.date b) = .ok (.num n) ∧
      Num.toRat n = Dates.serialQ a - Dates.serialQ b := by
  refine ⟨exact .sub (Dates.serialNum a) (Dates.serialNum b), ?_, ?_⟩
  · rw [scalar_spec _ _ _ _ (fun _ h => by cases h) (fun _ h => by cases h)]; rfl
  · rw [exact_value, toRat_serialNum, toRat_serialNum]; rfl

/-- … which from 1900-03-01 on is the elapsed time in days -/
theorem date_minus_date_days (fuel : Nat) (a b : Int) (ha : 59 * 86400000000 ≤ a)
    (hb : 59 * 86400000000 ≤ b) :
    ∃ n, evalArith fuel .sub (.date a) (.date b) = .ok (.num n) ∧
      Num.toRat n = ((a - b : Int) : Rat) / 86400000000 := by
  obtain ⟨n, h1, h2⟩ := date_minus_date fuel a b
  exact ⟨n, h1, by rw [h2, Dates.serialQ_sub_late a b ha hb]⟩

example : ∃ n, evalArith 0 .sub (.date 3788920800000000) (.date 3788056800000000) = .ok (.num n) ∧
    Num.toRat n = ((3788920800000000 - 3788056800000000 : Int) : Rat) / 86400000000 :=
  date_minus_date_days 0 _ _ (by decide) (by decide)

/-! ## 5. Commutativity of `+` and `*` -/

private theorem rewraps_comm (op : ArithOp) (h : op = .add ∨ op = .mul) (c1 c2 : Cls) :
    rewraps op c1 c2 = rewraps op c2 c1 := by
  rcases h with rfl | rfl <;> cases c1 <;> cases c2 <;> rfl

private theorem exact_comm (op : ArithOp) (h : op = .add ∨ op = .mul) (x y : Num) :
    exact op x y = exact op y x := by
  rcases h with rfl | rfl <;> cases x <;> cases y <;>
    simp [exact, ratOp, Int.add_comm, Int.mul_comm, Rat.add_comm, Rat.mul_comm]

private theorem spec_comm (op : ArithOp) (h : op = .add ∨ op = .mul) (a b : Value)
    (hne : isErr a = none ∨ isErr b = none) : spec op a b = spec op b a := by
  cases hea : isErr a with
  | some e =>
    have heb : isErr b = none := by
      rcases hne with h | h
      · rw [hea] at h; cases h
      · exact h
    rw [isErr_eq_some hea, spec_err_left, spec_err_right _ _ _ heb]
  | none =>
    cases heb : isErr b with
    | some e => rw [isErr_eq_some heb, spec_err_left, spec_err_right _ _ _ hea]
    | none =>
      have hd : op ≠ .div := by rcases h with rfl | rfl <;> decide
      rw [spec_nonerr _ _ _ hea heb, spec_nonerr _ _ _ heb hea, rewraps_comm op h (classify a) (classify b)]
      cases numOf a <;> cases numOf b <;> simp only [hd, false_and, ↓reduceIte, exact_comm op h]

/-- COMMUTATIVITY on scalars: `a ∘ b = b ∘ a` for `+` and `*` unless both operands are errors … -/
theorem comm_scalar (op : ArithOp) (hop : op = .add ∨ op = .mul) (f1 f2 : Nat) (a b : Value)
    (ha : Scalar a) (hb : Scalar b) (hne : isErr a = none ∨ isErr b = none) :
    evalArith f1 op a b = evalArith f2 op b a := by
  rw [scalar_spec f1 op a b ha hb, scalar_spec f2 op b a hb ha, spec_comm op hop a b hne]

/-- … in which case each order reports its own left operand (the only way the two orders differ) -/
theorem comm_both_errors (op : ArithOp) (f1 f2 : Nat) (e1 e2 : Err) :
    evalArith f1 op (.err e1) (.err e2) = .ok (.err e1) ∧
    evalArith f2 op (.err e2) (.err e1) = .ok (.err e2) :=
  ⟨evalArith_err_left _ _ _ _, evalArith_err_left _ _ _ _⟩

/-- COMMUTATIVITY, all values (arrays of any length and any nesting, errors anywhere): for any two
    fuels that cover the nesting depth, `a ∘ b` and `b ∘ a` are equal up to WHICH error code is
    reported at positions holding an error (`eraseErr` replaces every error code by `#VALUE!`). -/
theorem comm_up_to_error_code (op : ArithOp) (hop : op = .add ∨ op = .mul) (a b : Value) (f1 f2 : Nat)
    (hf1 : depth a + depth b ≤ f1) (hf2 : depth a + depth b ≤ f2) :
    (evalArith f1 op a b).map eraseErr = (evalArith f2 op b a).map eraseErr := by
  refine comm_core op eraseErr eraseErr_arr (fun _ _ => True) (fun _ _ _ _ _ => trivial)
    (fun _ _ _ _ _ => trivial) ?_ (depth a + depth b) a b f1 f2 trivial (Nat.le_refl _) hf1 hf2
  intro f1 f2 a b ha hb _
  rw [scalar_spec f1 op a b ha hb, scalar_spec f2 op b a hb ha]
  cases hea : isErr a with
  | none => rw [spec_comm op hop a b (Or.inl hea)]
  | some e1 =>
    cases heb : isErr b with
    | none => rw [spec_comm op hop a b (Or.inr heb)]
    | some e2 =>
      rw [isErr_eq_some hea, isErr_eq_some heb, spec_err_left, spec_err_left]
      simp only [Except.map, eraseErr_err]

/-- COMMUTATIVITY, exact: if at least one of the two operands contains no error value,
    `a ∘ b = b ∘ a` on the nose (so the two orders can differ only in the code of an error met
    on both sides at corresponding positions) -/
theorem comm_exact (op : ArithOp) (hop : op = .add ∨ op = .mul) (a b : Value) (f1 f2 : Nat)
    (hE : ErrFree a ∨ ErrFree b)
    (hf1 : depth a + depth b ≤ f1) (hf2 : depth a + depth b ≤ f2) :
    evalArith f1 op a b = evalArith f2 op b a := by
  have := comm_core op id (fun l => by simp) (fun a b => ErrFree a ∨ ErrFree b)
    (fun xs b h x hx => h.elim (fun h => Or.inl (h.elem x hx)) Or.inr)
    (fun a ys h y hy => h.elim Or.inl (fun h => Or.inr (h.elem y hy))) ?_
    (depth a + depth b) a b f1 f2 hE (Nat.le_refl _) hf1 hf2
  · rwa [except_map_id, except_map_id] at this
  · intro f1 f2 a b ha hb hE
    have : isErr a = none ∨ isErr b = none := by
      rcases hE with h | h
      · cases h with
        | scalar _ h => exact Or.inl h
        | arr _ => exact absurd rfl (ha _)
      · cases h with
        | scalar _ h => exact Or.inr h
        | arr _ => exact absurd rfl (hb _)
    rw [comm_scalar op hop f1 f2 a b ha hb this]

/-- `+` is commutative on ALL values: `a + b` and `b + a` agree except for the code of an error
    met on both sides at corresponding positions, and agree exactly when one side is error-free -/
theorem comm_add (a b : Value) (f1 f2 : Nat)
    (hf1 : depth a + depth b ≤ f1) (hf2 : depth a + depth b ≤ f2) :
    (evalArith f1 .add a b).map eraseErr = (evalArith f2 .add b a).map eraseErr ∧
    (ErrFree a ∨ ErrFree b → evalArith f1 .add a b = evalArith f2 .add b a) :=
  ⟨comm_up_to_error_code .add (Or.inl rfl) a b f1 f2 hf1 hf2,
   fun hE => comm_exact .add (Or.inl rfl) a b f1 f2 hE hf1 hf2⟩

/-- `*` is commutative on ALL values, in the same sense -/
theorem comm_mul (a b : Value) (f1 f2 : Nat)
    (hf1 : depth a + depth b ≤ f1) (hf2 : depth a + depth b ≤ f2) :
    (evalArith f1 .mul a b).map eraseErr = (evalArith f2 .mul b a).map eraseErr ∧
    (ErrFree a ∨ ErrFree b → evalArith f1 .mul a b = evalArith f2 .mul b a) :=
  ⟨comm_up_to_error_code .mul (Or.inr rfl) a b f1 f2 hf1 hf2,
   fun hE => comm_exact .mul (Or.inr rfl) a b f1 f2 hE hf1 hf2⟩

/-- non-vacuity: `{{1,2},{3}} * {10,"x"}` (nested, with a one-element sub-array, text on the other
    side, depth 2 + 1) with two different fuels -/
example : evalArith 3 .mul (.arr [.arr [.num (.int 1), .num (.int 2)], .arr [.num (.int 3)]])
              (.arr [.num (.int 10), .str "x".toList]) =
          evalArith 5 .mul (.arr [.num (.int 10), .str "x".toList])
              (.arr [.arr [.num (.int 1), .num (.int 2)], .arr [.num (.int 3)]]) := by
  have eb : ErrFree (.arr [.num (.int 10), .str "x".toList]) := by
    refine .arr ?_
    intro x hx
    simp only [List.mem_cons, List.not_mem_nil, or_false] at hx
    rcases hx with rfl | rfl
    · exact .scalar (fun _ h => by cases h) rfl
    · exact .scalar (fun _ h => by cases h) rfl
  exact (comm_mul _ _ 3 5 (by decide) (by decide)).2 (Or.inr eb)

/-! ### regression: the instances on which `+`/`*` were NOT commutative before /repo commit 2c0a146
    (one-element arrays holding an error or an array), now symmetric -/

private theorem i_nonArr (i : Int) : NonArr (.num (.int i)) := fun _ h => by cases h

/-- evaluating `[x₁, x₂] ∘ [y₁, y₂]` -/
private theorem zip2 (f : Nat) (op : ArithOp) (x1 x2 y1 y2 v1 v2 : Value)
    (h1 : evalArith f op x1 y1 = .ok v1) (h2 : evalArith f op x2 y2 = .ok v2) :
    zipArith f op [x1, x2] [y1, y2] = .ok [v1, v2] := by
  rw [zipArith_cons, zipArith_cons, zipArith_nil_left, h1, h2]; rfl

/-- `{#N/A} ∘ {1,2}` and `{1,2} ∘ {#N/A}` are both `#N/A` (was `{#N/A,#N/A}` on the right) -/
theorem comm_regression_singleton_error (op : ArithOp) :
    evalArith 2 op (.arr [.err .na]) (.arr [.num (.int 1), .num (.int 2)]) = .ok (.err .na) ∧
    evalArith 2 op (.arr [.num (.int 1), .num (.int 2)]) (.arr [.err .na]) = .ok (.err .na) := by
  constructor
  · rw [evalArith_one_left _ _ _ _ (by decide), evalArith_err_left]
  · rw [evalArith_one_right _ _ _ _ (by decide), evalArith_err_right _ _ _ _ rfl]

/-- `{{1}} + {3,4}` and `{3,4} + {{1}}` are both `{4,5}` (the second was `#VALUE!`) -/
theorem comm_regression_nested_singleton :
    evalArith 3 .add (.arr [.arr [.num (.int 1)]]) (.arr [.num (.int 3), .num (.int 4)]) =
      .ok (.arr [.num (.int 4), .num (.int 5)]) ∧
    evalArith 3 .add (.arr [.num (.int 3), .num (.int 4)]) (.arr [.arr [.num (.int 1)]]) =
      .ok (.arr [.num (.int 4), .num (.int 5)]) := by
  constructor
  · rw [evalArith_one_left _ _ _ _ (by decide), evalArith_one_left _ _ _ _ (by decide),
      evalArith_arr_right _ _ _ _ rfl (i_nonArr 1)]
    show Except.map Value.arr (zipArith 0 .add [.num (.int 1), .num (.int 1)] _) = _
    rw [zip2 0 .add _ _ _ _ _ _ (int_arith 0 1 3).1 (int_arith 0 1 4).1]
    rfl
  · rw [evalArith_one_right _ _ _ _ (by decide), evalArith_one_right _ _ _ _ (by decide),
      evalArith_arr_left _ _ _ _ rfl (by intro zs h; cases h), adaptValue_nonArr _ _ (i_nonArr 1)]
    show (if (List.replicate 2 (Value.num (.int 1))).length ≠ 2 then _ else
      Except.map Value.arr (zipArith 0 .add _ [.num (.int 1), .num (.int 1)])) = _
    rw [if_neg (by decide), zip2 0 .add _ _ _ _ _ _ (int_arith 0 3 1).1 (int_arith 0 4 1).1]
    rfl

/-- `{{1,2}} + {5}` and `{5} + {{1,2}}` are both `{{6,7}}` (the second was `#VALUE!`) -/
theorem comm_regression_singleton_of_array :
    evalArith 3 .add (.arr [.arr [.num (.int 1), .num (.int 2)]]) (.arr [.num (.int 5)]) =
      .ok (.arr [.arr [.num (.int 6), .num (.int 7)]]) ∧
    evalArith 3 .add (.arr [.num (.int 5)]) (.arr [.arr [.num (.int 1), .num (.int 2)]]) =
      .ok (.arr [.arr [.num (.int 6), .num (.int 7)]]) := by
  constructor
  · have inner : evalArith 2 .add (.arr [.num (.int 1), .num (.int 2)]) (.num (.int 5)) =
        .ok (.arr [.num (.int 6), .num (.int 7)]) := by
      rw [evalArith_arr_left _ _ _ _ rfl (by intro zs h; cases h), adaptValue_nonArr _ _ (i_nonArr 5)]
      show (if (List.replicate 2 (Value.num (.int 5))).length ≠ 2 then _ else
        Except.map Value.arr (zipArith 1 .add _ [.num (.int 5), .num (.int 5)])) = _
      rw [if_neg (by decide), zip2 1 .add _ _ _ _ _ _ (int_arith 1 1 5).1 (int_arith 1 2 5).1]
      rfl
    rw [evalArith_one_one, inner]; rfl
  · have inner : evalArith 2 .add (.num (.int 5)) (.arr [.num (.int 1), .num (.int 2)]) =
        .ok (.arr [.num (.int 6), .num (.int 7)]) := by
      rw [evalArith_arr_right _ _ _ _ rfl (i_nonArr 5)]
      show Except.map Value.arr (zipArith 1 .add [.num (.int 5), .num (.int 5)] _) = _
      rw [zip2 1 .add _ _ _ _ _ _ (int_arith 1 5 1).1 (int_arith 1 5 2).1]
      rfl
    rw [evalArith_one_one, inner]; rfl

/-! ## 6. Arrays -/

/-- ARRAY ∘ SCALAR is element-wise: every element is combined with the (non-error) scalar, in
    order; a Python exception inside an element aborts the whole operation (`mapM`).
    Any length (including 0 and 1), any nesting of the elements. -/
theorem array_scalar (f : Nat) (op : ArithOp) (xs : List Value) (s : Value)
    (hs : Scalar s) (hse : isErr s = none) :
    evalArith (f + 1) op (.arr xs) s = (xs.mapM (fun x => evalArith f op x s)).map .arr := by
  rw [evalArith_arr_left f op xs s hse (by intro ys h; exact absurd h (hs ys)),
    adaptValue_nonArr _ _ hs, if_neg (by simp), zipArith_replicate_right f op xs s _ rfl]

/-- SCALAR ∘ ARRAY is element-wise too, with the scalar on the left of every element (the
    reflected operators `__rsub__`, `__rtruediv__` keep the operand order) -/
theorem scalar_array (f : Nat) (op : ArithOp) (s : Value) (ys : List Value)
    (hs : Scalar s) (hse : isErr s = none) :
    evalArith (f + 1) op s (.arr ys) = (ys.mapM (fun y => evalArith f op s y)).map .arr := by
  rw [evalArith_arr_right f op s ys hse hs, zipArith_replicate_left f op ys s _ rfl]

/-- two one-element arrays: `{x} ∘ {y} = {x ∘ y}`, whatever `x` and `y` are -/
theorem array_array_single (f : Nat) (op : ArithOp) (x y : Value) :
    evalArith (f + 1) op (.arr [x]) (.arr [y]) = (evalArith f op x y).map (fun v => .arr [v]) :=
  evalArith_one_one f op x y

/-- ARRAY ∘ ARRAY of equal length — ANY length, 0 and 1 included, any nesting — is the
    element-wise zip -/
theorem array_array (f : Nat) (op : ArithOp) (xs ys : List Value) (hl : xs.length = ys.length) :
    evalArith (f + 1) op (.arr xs) (.arr ys) =
      ((xs.zip ys).mapM (fun p => evalArith f op p.1 p.2)).map .arr := by
  rcases length_eq_one_or xs with ⟨x, rfl⟩ | h1
  · obtain ⟨y, rfl⟩ : ∃ y, ys = [y] := List.length_eq_one_iff.mp hl.symm
    rw [evalArith_one_one]
    simp only [List.zip_cons_cons, List.zip_nil_right, List.mapM_cons, List.mapM_nil]
    cases evalArith f op x y <;> rfl
  · rw [evalArith_arr_left f op xs (.arr ys) rfl (by intro zs h; cases h; exact ⟨h1, by omega⟩),
      adaptValue_arr _ _ (by omega), if_neg (by simp [hl]), zipArith_eq_mapM]

/-- LENGTH MISMATCH: two arrays of different lengths, neither of length 1, give `#VALUE!` -/
theorem array_mismatch (f : Nat) (op : ArithOp) (xs ys : List Value)
    (hl : xs.length ≠ ys.length) (hx : xs.length ≠ 1) (hy : ys.length ≠ 1) :
    evalArith (f + 1) op (.arr xs) (.arr ys) = .ok (.err .value) := by
  rw [evalArith_arr_left f op xs (.arr ys) rfl (by intro zs h; cases h; exact ⟨hx, hy⟩),
    adaptValue_arr _ _ hy, if_pos (fun h => hl h.symm)]

/-- a one-element array acts as its element — whatever that element is (scalar, error, array of any
    nesting): on the left of an array of another length … -/
theorem array_single_left (f : Nat) (op : ArithOp) (x : Value) (ys : List Value) (h : ys.length ≠ 1) :
    evalArith (f + 1) op (.arr [x]) (.arr ys) = evalArith f op x (.arr ys) :=
  evalArith_one_left f op x ys h

/-- … and on the right of an array of another length -/
theorem array_single_right (f : Nat) (op : ArithOp) (xs : List Value) (y : Value) (h : xs.length ≠ 1) :
    evalArith (f + 1) op (.arr xs) (.arr [y]) = evalArith f op (.arr xs) y :=
  evalArith_one_right f op xs y h

/-- non-vacuity of the one-element rules at depth: `{{{7}}} - {1,2}` unwraps three levels -/
example : evalArith 4 .sub (.arr [.arr [.arr [.num (.int 7)]]]) (.arr [.num (.int 1), .num (.int 2)]) =
    evalArith 1 .sub (.num (.int 7)) (.arr [.num (.int 1), .num (.int 2)]) := by
  rw [array_single_left _ _ _ _ (by decide), array_single_left _ _ _ _ (by decide),
    array_single_left _ _ _ _ (by decide)]

/-- an error scalar against an array is that error (no broadcasting) -/
theorem array_error_scalar (f : Nat) (op : ArithOp) (xs : List Value) (e : Err) :
    evalArith f op (.arr xs) (.err e) = .ok (.err e) ∧ evalArith f op (.err e) (.arr xs) = .ok (.err e) :=
  ⟨evalArith_err_right _ _ _ _ rfl, evalArith_err_left _ _ _ _⟩

/-- `{1,2,3} - 1 = {0,1,2}`, `10 / {2,"x",0} = {5.0,#VALUE!,#DIV/0!}`, `{1,2} * {3,4} = {3,8}`,
    `{1,2} + {1,2,3} = #VALUE!` -/
example :
    evalArith 1 .sub (.arr [.num (.int 1), .num (.int 2), .num (.int 3)]) (.num (.int 1)) =
      .ok (.arr [.num (.int 0), .num (.int 1), .num (.int 2)]) ∧
    evalArith 1 .div (.num (.int 10)) (.arr [.num (.int 2), .str "x".toList, .num (.int 0)]) =
      .ok (.arr [.num (.flt 5), .err .value, .err .div0]) ∧
    evalArith 1 .mul (.arr [.num (.int 1), .num (.int 2)]) (.arr [.num (.int 3), .num (.int 4)]) =
      .ok (.arr [.num (.int 3), .num (.int 8)]) ∧
    evalArith 1 .add (.arr [.num (.int 1), .num (.int 2)])
        (.arr [.num (.int 1), .num (.int 2), .num (.int 3)]) = .ok (.err .value) := by
  have sc : ∀ i : Int, Scalar (.num (.int i)) := fun _ _ h => by cases h
  refine ⟨?_, ?_, ?_, ?_⟩
  · rw [array_scalar 0 .sub _ _ (sc 1) rfl]
    simp only [List.mapM_cons, List.mapM_nil, (int_arith 0 _ _).2.1]
    rfl
  · rw [scalar_array 0 .div _ _ (sc 10) rfl]
    have h1 : evalArith 0 .div (.num (.int 10)) (.num (.int 2)) = .ok (.num (.flt 5)) := by
      rw [scalar_spec _ _ _ _ (sc 10) (sc 2)]
      simp only [spec, numOf, classify, rewraps, exact, ratOp, Num.toRat]
      norm_num
    have h2 : evalArith 0 .div (.num (.int 10)) (.str "x".toList) = .ok (.err .value) :=
      value_error 0 .div _ _ (sc 10) (fun _ h => by cases h) rfl rfl (Or.inr (by decide +kernel))
    have h3 : evalArith 0 .div (.num (.int 10)) (.num (.int 0)) = .ok (.err .div0) :=
      div_zero 0 _ _ 10 (sc 10) (sc 0) (by decide +kernel) (by decide +kernel)
    simp only [List.mapM_cons, List.mapM_nil, h1, h2, h3]
    rfl
  · rw [array_array 0 .mul [.num (.int 1), .num (.int 2)] [.num (.int 3), .num (.int 4)] rfl]
    simp only [List.zip_cons_cons, List.zip_nil_right, List.mapM_cons, List.mapM_nil,
      (int_arith 0 _ _).2.2]
    rfl
  · exact array_mismatch 0 .add _ _ (by decide) (by decide) (by decide)

/-! ## 7. Concatenation `&` -/

/-- CONCATENATION.  For operands that are text, whole numbers or blank, `a & b` is the text of `a`
    followed by the text of `b`: text verbatim, integers as their decimal digits, blank as nothing -/
theorem concat_spec (a b : Value) (s t : List Char) (ha : textOf a = some s) (hb : textOf b = some t) :
    evalAmp a b = .ok (.str (s ++ t)) := by
  have pa : pyStr? a = some s ∧ isErr a = none := by
    cases a with
    | num n => cases n <;> simp_all [textOf, pyStr?, isErr]
    | _ => simp_all [textOf, pyStr?, isErr]
  have pb : pyStr? b = some t ∧ isErr b = none := by
    cases b with
    | num n => cases n <;> simp_all [textOf, pyStr?, isErr]
    | _ => simp_all [textOf, pyStr?, isErr]
  unfold evalAmp
  simp only [pa.1, pa.2, pb.1, pb.2]

/-- an error operand of `&` is returned as is, the left one first -/
theorem concat_error (a b : Value) (e : Err) :
    evalAmp (.err e) b = .ok (.err e) ∧ (isErr a = none → evalAmp a (.err e) = .ok (.err e)) := by
  constructor
  · simp [evalAmp, isErr]
  · intro h; unfold evalAmp; simp only [h]; simp [isErr]

/-- the digits `&` writes for a whole number spell that number again: `(i & "") + 0 = i` -/
theorem concat_int_roundtrip (fuel : Nat) (i : Int) :
    evalAmp (.num (.int i)) .blank = .ok (.str (PyNum.intToDec i)) ∧
    evalArith fuel .add (.str (PyNum.intToDec i)) (.num (.int 0)) = .ok (.num (.int i)) := by
  constructor
  · have := concat_spec (.num (.int i)) .blank _ _ rfl rfl
    simpa using this
  · rw [scalar_spec _ _ _ _ (fun _ h => by cases h) (fun _ h => by cases h)]
    have : numOf (.str (PyNum.intToDec i)) = some (.int i) := by
      simp only [numOf, toNumberText, PyNum.pyInt?_intToDec]
    have hc : classify (.str (PyNum.intToDec i)) = .number := by
      simp only [classify, toNumberText, PyNum.pyInt?_intToDec]
    rw [spec_nonerr _ _ _ rfl rfl, this, hc]
    simp [numOf, classify, rewraps, exact]

/-- `"ab" & 12 = "ab12"`, `-7 & "" = "-7"`, blank & "x" = "x" -/
example : evalAmp (.str "ab".toList) (.num (.int 12)) = .ok (.str "ab12".toList) ∧
    evalAmp (.num (.int (-7))) (.str []) = .ok (.str "-7".toList) ∧
    evalAmp .blank (.str "x".toList) = .ok (.str "x".toList) := by
  refine ⟨?_, ?_, ?_⟩
  · exact concat_spec _ _ "ab".toList "12".toList rfl (by decide +kernel)
  · exact concat_spec _ _ "-7".toList [] (by decide +kernel) rfl
  · exact concat_spec _ _ [] "x".toList rfl rfl

end HotXL.Props.C06
