/-
  Property C13 — date serial numbers: invertible, monotone, Excel 1900 system.

  About hotxlfp/formulas/utils.py `serialize_date` / `parse_date` (model: `Dates.serialize`,
  `Dates.parseNum`; datetimes are Int MICROSECONDS since 1900-01-01T00:00, serials exact
  rationals), the operators of hotxlfp/formulas/operators.py that convert dates through them
  (`Ops.evalArith` over the generated conversion table, `Ops.evalLogic`), and the builtins
  `DATEVALUE`, `DAYS` (dateandtime.py) and `N` (information.py).

  All theorems are over ALL integers / rationals (no calendar bound): exact arithmetic.  The
  floating-point evaluation of the same expressions by the real code (`total_seconds()`,
  `timedelta(seconds=float)`) is tied to this model by the differential sweep of
  harness/props/c13.py (every day 1900-01-01 … 9999-12-31, every integer serial).

  The calendar enters only through constants that are EVALUATED from `Model/Calendar.lean` by
  `decide` (`epoch_seconds(date_1900)`, the offsets of 1899-12-30, 1900-02-28 and 1900-03-01).
-/
import HotXL.Lemmas.Serial
import HotXL.Model.Fn.Info
import HotXL.Model.Fn.DateTime

namespace HotXL.Props.C13
open HotXL HotXL.Ops HotXL.Dates HotXL.Serial

/-- one day in microseconds, as a rational -/
abbrev D : Rat := (usPerDay : Rat)

/-! ### the constants of the source -/

/-- The literals and comparison operators of `serialize_date` and `parse_date`, in source
    order, are the ones the proofs below were written for (`date == date_1900 → 0`,
    `*1000`, `date < -2203891200000`, `/86400000 + 1 | + 2`; `date < 0`, `date < 1`,
    `date <= 60`, `(date-1)*86400 | (date-2)*86400`), `date_1900` is 1900-01-01 and `epoch`
    1970-01-01.  A changed literal in utils.py breaks this theorem. -/
theorem constants_pinned :
    Generated.serializeDateConsts = [0, 1000, 1000, -2203891200000, 86400000, 1, 86400000, 2] ∧
    Generated.serializeDateCompares = ["Eq", "Lt"] ∧
    Generated.parseDateConsts = [0, 1, 60, 1, 86400, 2, 86400] ∧
    Generated.parseDateCompares = ["Lt", "Lt", "LtE"] ∧
    Generated.date1900 = [1900, 1, 1, 0, 0, 0, 0] ∧
    Generated.epochDate = [1970, 1, 1, 0, 0, 0, 0] :=
  ⟨sConsts_pinned, sCompares_pinned, pConsts_pinned, pCompares_pinned, date1900_pinned, epochDate_pinned⟩

/-- `epoch_seconds(date_1900)` is −2 208 988 800 s, and the magic number −2203891200000 of
    `serialize_date` is exactly midnight of 1 March 1900 in epoch milliseconds: both computed
    from the calendar model. -/
theorem boundary_is_1_march_1900 :
    epochSeconds1900 = -2208988800 ∧
    (epochSeconds1900 * 1000000 + usOfYMD 1900 3 1) / 1000 = sConst 3 ∧
    usOfYMD 1900 3 1 = 59 * usPerDay ∧ usOfYMD 1899 12 30 = -2 * usPerDay := by
  decide

/-! ### closed forms -/

/-- `serialize_date(date_1900)` is the integer 0; any other datetime, `us` microseconds after
    1900-01-01T00:00 (`us` may be negative), gets the float `us/86400000000 + 1` before
    1 March 1900 and `us/86400000000 + 2` from 1 March 1900 on. -/
theorem serialize_closed_form (us : Int) :
    serialize us =
      if us = 0 then .int 0
      else .flt ((us : Rat) / D + (if us < usOfYMD 1900 3 1 then 1 else 2)) := by
  by_cases h : us = 0
  · subst h; decide
  · rw [if_neg h, serialize_closed us h, us_1900_03_01, usPerDay_eq]
    rfl

/-- `parse_date(number)`: `#NUM!` below 0, `date_1900` on [0,1), day `number − 1` on [1,60],
    day `number − 2` above 60 (the result rounded half-even to whole microseconds, as
    `timedelta` does). -/
theorem parseNum_closed_form (s : Rat) :
    parseNum s =
      if s < 0 then none
      else if s < 1 then some 0
      else if s ≤ 60 then some (roundHalfEven ((s - 1) * 86400 * 1000000))
      else some (roundHalfEven ((s - 2) * 86400 * 1000000)) :=
  parseNum_closed s

/-! ### 1. date → serial → date -/

/-- Converting any date-time from 1 January 1900 on (any whole microsecond, hence any
    millisecond) to its serial number and back gives the same date-time. -/
theorem roundtrip (us : Int) (h : 0 ≤ us) : parseNum (serial us) = some us := by
  by_cases h0 : us = 0
  · subst h0; decide
  have hpos : (0 : Rat) < (us : Rat) := by
    have : 0 < us := by omega
    exact cast_lt.mpr this
  rw [parseNum_closed]
  by_cases hb : us < 59 * 86400000000
  · have hlt : (us : Rat) < ((59 * 86400000000 : Int) : Rat) := cast_lt.mpr hb
    rw [serial_early us h0 hb]
    rw [if_neg (by grind), if_neg (by grind), if_pos (by grind)]
    congr 1
    apply roundHalfEven_of_eq
    grind
  · have hge : ((59 * 86400000000 : Int) : Rat) ≤ (us : Rat) := cast_le.mpr (by omega)
    rw [serial_late us (by omega)]
    rw [if_neg (by grind), if_neg (by grind), if_neg (by grind)]
    congr 1
    apply roundHalfEven_of_eq
    grind

example : parseNum (serial (usOfYMD 1900 3 1)) = some (usOfYMD 1900 3 1) := roundtrip _ (by decide)
example : parseNum (serial 1) = some 1 := roundtrip 1 (by decide)

/-- The same through the operator-level `parse_date` (which raises beyond year 9999): for a
    date-time of the `datetime` range from 1900 on, the serial converts back to that date-time. -/
theorem roundtrip_value (us : Int) (h : 0 ≤ us) (hmax : us < usEnd) :
    parseDateValue (serial us) = some (.date us) := by
  unfold parseDateValue
  rw [roundtrip us h]
  simp only [hmax, if_true]

example : (0 : Int) ≤ usOfYMD 9999 12 31 ∧ usOfYMD 9999 12 31 < usEnd := by decide

/-! ### 2. strict monotonicity -/

/-- Serials increase strictly with time from 1 January 1900 on — across the special case
    1900-01-01 ↦ 0 (the next microsecond is 1 + 1/86400000000) and across the jump from
    below 60 to 61 at 1 March 1900. -/
theorem strict_mono (a b : Int) (ha : 0 ≤ a) (hab : a < b) : serial a < serial b := by
  have hb0 : b ≠ 0 := by omega
  have hbpos : (0 : Rat) < (b : Rat) := Rat.intCast_pos.mpr (by omega)
  have hlt : (a : Rat) < (b : Rat) := cast_lt.mpr hab
  by_cases ha0 : a = 0
  · subst ha0
    rw [serial_zero, serial_closed b hb0]
    split <;> grind
  · rw [serial_closed a ha0, serial_closed b hb0]
    by_cases h1 : a < 59 * 86400000000 <;> by_cases h2 : b < 59 * 86400000000
    · rw [if_pos h1, if_pos h2]; grind
    · rw [if_pos h1, if_neg h2]; grind
    · omega
    · rw [if_neg h1, if_neg h2]; grind

example : serial 0 < serial 1 := strict_mono 0 1 (by decide) (by decide)
example : serial (usOfYMD 1900 2 28) < serial (usOfYMD 1900 3 1) := strict_mono _ _ (by decide) (by decide)

/-- Hence the serial order IS the time order, and equal serials mean equal date-times. -/
theorem serial_lt_iff (a b : Int) (ha : 0 ≤ a) (hb : 0 ≤ b) : serial a < serial b ↔ a < b := by
  constructor
  · intro h
    rcases Int.lt_trichotomy a b with h1 | h1 | h1
    · exact h1
    · subst h1; exact absurd h Rat.lt_irrefl
    · have := strict_mono b a hb h1; grind
  · exact strict_mono a b ha

theorem serial_injective (a b : Int) (ha : 0 ≤ a) (hb : 0 ≤ b) (h : serial a = serial b) : a = b := by
  rcases Int.lt_trichotomy a b with h1 | h1 | h1
  · have := strict_mono a b ha h1; rw [h] at this; exact absurd this Rat.lt_irrefl
  · exact h1
  · have := strict_mono b a hb h1; rw [h] at this; exact absurd this Rat.lt_irrefl

example : serial (usOfYMD 2020 1 15) < serial (usOfYMD 2020 1 16) ↔ usOfYMD 2020 1 15 < usOfYMD 2020 1 16 :=
  serial_lt_iff _ _ (by decide) (by decide)
example (b : Int) (hb : 0 ≤ b) (h : serial (usOfYMD 1900 3 1) = serial b) : usOfYMD 1900 3 1 = b :=
  serial_injective _ b (by decide) hb h

/-! ### 3. Excel's 1900 date system -/

/-- From 1 March 1900 on the serial is the time elapsed since 30 December 1899, in days
    (whole days = integer part, time of day = fraction), as in Excel's 1900 date system.
    Both dates are computed from the calendar model, not assumed. -/
theorem excel_1900 (us : Int) (h : usOfYMD 1900 3 1 ≤ us) :
    serial us = ((us - usOfYMD 1899 12 30 : Int) : Rat) / D := by
  rw [us_1900_03_01, usPerDay_eq] at h
  rw [serial_late us h, us_1899_12_30, usPerDay_eq]
  show _ = ((us - -2 * 86400000000 : Int) : Rat) / ((86400000000 : Int) : Rat)
  rw [Rat.intCast_sub]
  grind

/-- … and the result is a Python float (only `date_1900` itself serialises to an int). -/
theorem excel_1900_is_float (us : Int) (h : usOfYMD 1900 3 1 ≤ us) :
    serialize us = .flt (((us - usOfYMD 1899 12 30 : Int) : Rat) / D) := by
  have h' := h
  rw [us_1900_03_01, usPerDay_eq] at h'
  have := excel_1900 us h
  unfold serial at this
  rw [serialize_closed us (by omega)] at this ⊢
  exact congrArg Num.flt this

/-- whole days: the serial of midnight `n` days after 30 December 1899 is `n` (n ≥ 61) -/
theorem excel_1900_whole_days (n : Int) (h : 61 ≤ n) :
    serial (usOfYMD 1899 12 30 + n * usPerDay) = (n : Rat) := by
  rw [excel_1900 _ (by rw [us_1900_03_01, us_1899_12_30, usPerDay_eq]; omega)]
  have : usOfYMD 1899 12 30 + n * usPerDay - usOfYMD 1899 12 30 = n * 86400000000 := by
    rw [usPerDay_eq]; omega
  have hD : D = ((86400000000 : Int) : Rat) := by rw [show D = (usPerDay : Rat) from rfl, usPerDay_eq]
  rw [this, hD, Rat.intCast_mul]
  grind

example : serial (usOfYMD 1900 3 1) = 61 := by decide +kernel
example : serial (usOfYMD 1900 2 28) = 59 := by decide +kernel
example : serial (usOfYMD 2020 1 15 + 12 * 3600 * 1000000) = 43845 + 1 / 2 := by decide +kernel

/-! ### 4. serial → date → serial -/

/-- Converting a serial from 61 on (any rational with microsecond granularity: `s · usPerDay`
    is a whole number `k`) to a date-time and back returns the serial; the date-time is
    `k` microseconds after 30 December 1899. -/
theorem serial_roundtrip (s : Rat) (k : Int) (hs : 61 ≤ s) (hk : s * D = (k : Rat)) :
    parseNum s = some (usOfYMD 1899 12 30 + k) ∧ serial (usOfYMD 1899 12 30 + k) = s := by
  have hD : D = ((86400000000 : Int) : Rat) := by rw [show D = (usPerDay : Rat) from rfl, usPerDay_eq]
  rw [hD] at hk
  have hk61 : ((61 * 86400000000 : Int) : Rat) ≤ (k : Rat) := by grind
  have hk61' : 61 * 86400000000 ≤ k := cast_le.mp hk61
  rw [us_1899_12_30, usPerDay_eq]
  constructor
  · rw [parseNum_closed, if_neg (by grind), if_neg (by grind), if_neg (by grind)]
    congr 1
    apply roundHalfEven_of_eq
    rw [Rat.intCast_add]
    grind
  · rw [serial_late _ (by omega), Rat.intCast_add]
    grind

/-- the statement's form: `serialize_date(parse_date(s)) = s` for such serials -/
theorem serial_roundtrip_map (s : Rat) (k : Int) (hs : 61 ≤ s) (hk : s * D = (k : Rat)) :
    (parseNum s).map serial = some s := by
  obtain ⟨h1, h2⟩ := serial_roundtrip s k hs hk
  rw [h1, Option.map_some, h2]

/-- Every integer serial from 61 on: it parses to midnight `n` days after 30 December 1899,
    and that date serialises to `n` again. -/
theorem serial_roundtrip_int (n : Int) (h : 61 ≤ n) :
    parseNum (n : Rat) = some (usOfYMD 1899 12 30 + n * usPerDay) ∧
    (parseNum (n : Rat)).map serial = some (n : Rat) := by
  have hk : (n : Rat) * D = ((n * usPerDay : Int) : Rat) := by rw [Rat.intCast_mul]
  have hs : (61 : Rat) ≤ (n : Rat) := by
    have : ((61 : Int) : Rat) ≤ (n : Rat) := cast_le.mpr h
    exact this
  exact ⟨(serial_roundtrip _ _ hs hk).1, serial_roundtrip_map _ _ hs hk⟩

example : parseNum 61 = some (usOfYMD 1900 3 1) := by decide +kernel
example : (parseNum 2958465).map serial = some 2958465 := (serial_roundtrip_int 2958465 (by decide)).2
example : parseNum 2958465 = some (usOfYMD 9999 12 31) := by decide +kernel
example : (parseNum (43845 + 1 / 2)).map serial = some (43845 + 1 / 2) :=
  serial_roundtrip_map _ (43845 * 86400000000 + 43200000000) (by decide +kernel) (by decide +kernel)

/-- Below 61 the picture is different, and this is what the code does.  A serial strictly
    between 60 and 61 (Excel's non-existent 29 February 1900) parses to the same time of day on
    28 February 1900, whose own serial is `s − 1`; … -/
theorem parse_phantom (s : Rat) (k : Int) (h1 : 60 < s) (h2 : s < 61) (hk : s * D = (k : Rat)) :
    parseNum s = some (usOfYMD 1899 12 30 + k) ∧
    usOfYMD 1900 2 28 < usOfYMD 1899 12 30 + k ∧ usOfYMD 1899 12 30 + k < usOfYMD 1900 3 1 ∧
    serial (usOfYMD 1899 12 30 + k) = s - 1 := by
  have hD : D = ((86400000000 : Int) : Rat) := by rw [show D = (usPerDay : Rat) from rfl, usPerDay_eq]
  rw [hD] at hk
  have hk60 : ((60 * 86400000000 : Int) : Rat) < (k : Rat) := by grind
  have hk61 : (k : Rat) < ((61 * 86400000000 : Int) : Rat) := by grind
  have hk60' := cast_lt.mp hk60
  have hk61' := cast_lt.mp hk61
  rw [us_1899_12_30, us_1900_02_28, us_1900_03_01, usPerDay_eq]
  refine ⟨?_, by omega, by omega, ?_⟩
  · rw [parseNum_closed, if_neg (by grind), if_neg (by grind), if_neg (by grind)]
    congr 1
    apply roundHalfEven_of_eq
    rw [Rat.intCast_add]
    grind
  · rw [serial_early _ (by omega) (by omega), Rat.intCast_add]
    grind

example : parseNum (60 + 1 / 2) = some (usOfYMD 1900 2 28 + 12 * 3600 * 1000000) := by decide +kernel
example : serial (usOfYMD 1899 12 30 + (60 * 86400000000 + 43200000000)) = (60 + 1 / 2 : Rat) - 1 :=
  (parse_phantom (60 + 1 / 2) (60 * 86400000000 + 43200000000) (by decide +kernel) (by decide +kernel) (by decide +kernel)).2.2.2

/-- … the serial 60 itself parses to 1 March 1900 (whose serial is 61), and a serial strictly
    between 1 and 60 (microsecond granularity) round-trips. -/
theorem parse_low :
    parseNum 60 = some (usOfYMD 1900 3 1) ∧ (parseNum 60).map serial = some 61 ∧
    parseNum 1 = some 0 ∧ (parseNum 1).map serial = some 0 ∧
    (∀ (s : Rat) (k : Int), 1 < s → s < 60 → s * D = (k : Rat) →
        parseNum s = some (k - usPerDay) ∧ serial (k - usPerDay) = s) := by
  refine ⟨by decide +kernel, by decide +kernel, by decide +kernel, by decide +kernel, ?_⟩
  intro s k h1 h2 hk
  have hD : D = ((86400000000 : Int) : Rat) := by rw [show D = (usPerDay : Rat) from rfl, usPerDay_eq]
  rw [hD] at hk
  have hk1 : ((1 * 86400000000 : Int) : Rat) < (k : Rat) := by grind
  have hk60 : (k : Rat) < ((60 * 86400000000 : Int) : Rat) := by grind
  have hk1' := cast_lt.mp hk1
  have hk60' := cast_lt.mp hk60
  rw [usPerDay_eq]
  constructor
  · rw [parseNum_closed, if_neg (by grind), if_neg (by grind), if_pos (by grind)]
    congr 1
    apply roundHalfEven_of_eq
    rw [Rat.intCast_sub]
    grind
  · rw [serial_early _ (by omega) (by omega), Rat.intCast_sub]
    grind

example : parseNum (2 + 1 / 2) = some (216000000000 - usPerDay) ∧ serial (216000000000 - usPerDay) = 2 + 1 / 2 :=
  parse_low.2.2.2.2 (2 + 1 / 2) 216000000000 (by decide +kernel) (by decide +kernel) (by decide +kernel)

/-- No date-time whatsoever (before or after 1900) serialises into the phantom day (60, 61),
    nor to 60 or to 1: the serials 1 and 60 are never produced. -/
theorem serialize_never_in_phantom (us : Int) :
    ¬ (60 ≤ serial us ∧ serial us < 61) ∧ serial us ≠ 1 := by
  by_cases h0 : us = 0
  · subst h0; decide
  have hne : (us : Rat) ≠ 0 := by
    intro h; exact h0 (Rat.intCast_eq_zero_iff.mp h)
  by_cases hb : us < 59 * 86400000000
  · have hlt : (us : Rat) < ((59 * 86400000000 : Int) : Rat) := cast_lt.mpr hb
    rw [serial_early us h0 hb]
    constructor
    · intro ⟨h1, _⟩; grind
    · intro h; grind
  · have hge : ((59 * 86400000000 : Int) : Rat) ≤ (us : Rat) := cast_le.mpr (by omega)
    rw [serial_late us (by omega)]
    constructor
    · intro ⟨_, h2⟩; grind
    · intro h; grind

/-! ### 5. what the operators and functions see -/

/-- `date + n` (n a whole number of days, positive or negative): when both the date-time and
    the result lie between 1 March 1900 and the end of `datetime`'s range (year 9999), the
    result is the date-time exactly n days later.  (Beyond year 9999 Python raises
    OverflowError, which `parse` reports as #ERROR!.) -/
theorem add_days (fuel : Nat) (us n : Int) (h1 : usOfYMD 1900 3 1 ≤ us)
    (h2 : usOfYMD 1900 3 1 ≤ us + n * usPerDay) (h3 : us + n * usPerDay < usEnd) :
    evalArith fuel .add (.date us) (.num (.int n)) = .ok (.date (us + n * usPerDay)) := by
  have hconv : convLookup .add .date .number = some ("serialize_date", "none", "parse_date") := by decide
  have hknown : leftTypeKnown .add .date = true := by decide
  rw [us_1900_03_01, usPerDay_eq] at h1 h2
  have hge1 : ((59 * 86400000000 : Int) : Rat) ≤ (us : Rat) := cast_le.mpr h1
  have hge2 : ((59 * 86400000000 : Int) : Rat) ≤ ((us + n * 86400000000 : Int) : Rat) := cast_le.mpr h2
  rw [Rat.intCast_add, Rat.intCast_mul] at hge2
  have hparse : parseNum ((us : Rat) / 86400000000 + 2 + (n : Rat)) = some (us + n * usPerDay) := by
    rw [parseNum_closed, if_neg (by grind), if_neg (by grind), if_neg (by grind), usPerDay_eq]
    congr 1
    apply roundHalfEven_of_eq
    rw [Rat.intCast_add, Rat.intCast_mul]
    grind
  unfold evalArith
  simp only [isErr, arithScalar, valueAndType, Operand.ty, hknown, hconv, applyConv, applyOp,
    serialize_closed us (by omega), if_neg (show ¬ us < 59 * 86400000000 by omega),
    numAdd, Num.toRat, applyResult, parseDateValue, Bool.not_true, Bool.false_eq_true, if_false]
  rw [hparse]
  simp only [h3, if_true]

example : usOfYMD 1900 3 1 ≤ usOfYMD 2020 2 28 ∧ usOfYMD 1900 3 1 ≤ usOfYMD 2020 2 28 + 2 * usPerDay ∧
    usOfYMD 2020 2 28 + 2 * usPerDay < usEnd ∧ usOfYMD 2020 2 28 + 2 * usPerDay = usOfYMD 2020 3 1 := by decide

/-- `date − n` likewise gives the date-time n days earlier. -/
theorem sub_days (fuel : Nat) (us n : Int) (h1 : usOfYMD 1900 3 1 ≤ us)
    (h2 : usOfYMD 1900 3 1 ≤ us - n * usPerDay) (h3 : us - n * usPerDay < usEnd) :
    evalArith fuel .sub (.date us) (.num (.int n)) = .ok (.date (us - n * usPerDay)) := by
  have hconv : convLookup .sub .date .number = some ("serialize_date", "none", "parse_date") := by decide
  have hknown : leftTypeKnown .sub .date = true := by decide
  rw [us_1900_03_01, usPerDay_eq] at h1 h2
  have hge1 : ((59 * 86400000000 : Int) : Rat) ≤ (us : Rat) := cast_le.mpr h1
  have hge2 : ((59 * 86400000000 : Int) : Rat) ≤ ((us - n * 86400000000 : Int) : Rat) := cast_le.mpr h2
  rw [Rat.intCast_sub, Rat.intCast_mul] at hge2
  have hparse : parseNum ((us : Rat) / 86400000000 + 2 - (n : Rat)) = some (us - n * usPerDay) := by
    rw [parseNum_closed, if_neg (by grind), if_neg (by grind), if_neg (by grind), usPerDay_eq]
    congr 1
    apply roundHalfEven_of_eq
    rw [Rat.intCast_sub, Rat.intCast_mul]
    grind
  unfold evalArith
  simp only [isErr, arithScalar, valueAndType, Operand.ty, hknown, hconv, applyConv, applyOp,
    serialize_closed us (by omega), if_neg (show ¬ us < 59 * 86400000000 by omega),
    numSub, Num.toRat, applyResult, parseDateValue, Bool.not_true, Bool.false_eq_true, if_false]
  rw [hparse]
  simp only [h3, if_true]

example : usOfYMD 1900 3 1 ≤ usOfYMD 2020 3 1 ∧ usOfYMD 1900 3 1 ≤ usOfYMD 2020 3 1 - 2 * usPerDay ∧
    usOfYMD 2020 3 1 - 2 * usPerDay < usEnd ∧ usOfYMD 2020 3 1 - 2 * usPerDay = usOfYMD 2020 2 28 := by decide

/-- `date − date` is the difference of the two serials (for ANY two date-times) … -/
theorem sub_dates_serials (fuel : Nat) (a b : Int) :
    evalArith fuel .sub (.date a) (.date b) = .ok (.num (numSub (serialize a) (serialize b))) := by
  have hconv : convLookup .sub .date .date = some ("serialize_date", "serialize_date", "absent") := by decide
  have hknown : leftTypeKnown .sub .date = true := by decide
  unfold evalArith
  simp only [isErr, arithScalar, valueAndType, Operand.ty, hknown, hconv, applyConv, applyOp, applyResult,
    Bool.not_true, Bool.false_eq_true, if_false]

/-- … which from 1 March 1900 on is the time between them in days (a float; whole days for two
    dates). -/
theorem sub_dates (fuel : Nat) (a b : Int) (ha : usOfYMD 1900 3 1 ≤ a) (hb : usOfYMD 1900 3 1 ≤ b) :
    evalArith fuel .sub (.date a) (.date b) = .ok (.num (.flt (((a - b : Int) : Rat) / D))) := by
  rw [sub_dates_serials]
  rw [us_1900_03_01, usPerDay_eq] at ha hb
  rw [serialize_closed a (by omega), serialize_closed b (by omega), if_neg (by omega), if_neg (by omega)]
  simp only [numSub, Num.toRat]
  have hD : D = ((86400000000 : Int) : Rat) := by rw [show D = (usPerDay : Rat) from rfl, usPerDay_eq]
  rw [hD, Rat.intCast_sub]
  congr 3
  grind

example : evalArith 0 .sub (.date (usOfYMD 2020 3 1)) (.date (usOfYMD 2020 2 1)) = .ok (.num (.flt 29)) := by
  rw [sub_dates 0 _ _ (by decide) (by decide)]
  have : (((usOfYMD 2020 3 1 - usOfYMD 2020 2 1 : Int) : Rat) / D) = 29 := by decide +kernel
  rw [this]

/-- Before 1 March 1900 the two corollaries do NOT hold in general, and this is what the code does
    (outside the statement, which derives them from the Excel-1900 clause): 1900-01-01 has serial 0
    and 1900-01-02 serial 2, so `DATE(1900,1,1)+1` is 1900-01-01 again and
    `DATE(1900,1,2)-DATE(1900,1,1)` is 2; and across Excel's phantom 29 February 1900
    `DATE(1900,2,28)+1` and `DATE(1900,2,28)+2` are both 1 March 1900 and
    `DATE(1900,3,1)-DATE(1900,2,28)` is 2 (as in Excel). -/
theorem early_1900_arithmetic (fuel : Nat) :
    evalArith fuel .add (.date (usOfYMD 1900 1 1)) (.num (.int 1)) = .ok (.date (usOfYMD 1900 1 1)) ∧
    evalArith fuel .sub (.date (usOfYMD 1900 1 2)) (.date (usOfYMD 1900 1 1)) = .ok (.num (.flt 2)) ∧
    evalArith fuel .add (.date (usOfYMD 1900 2 28)) (.num (.int 1)) = .ok (.date (usOfYMD 1900 3 1)) ∧
    evalArith fuel .add (.date (usOfYMD 1900 2 28)) (.num (.int 2)) = .ok (.date (usOfYMD 1900 3 1)) ∧
    evalArith fuel .sub (.date (usOfYMD 1900 3 1)) (.date (usOfYMD 1900 2 28)) = .ok (.num (.flt 2)) := by
  have hconv : convLookup .add .date .number = some ("serialize_date", "none", "parse_date") := by decide
  have hknown : leftTypeKnown .add .date = true := by decide
  have hend : usOfYMD 1900 3 1 < usEnd ∧ usOfYMD 1900 1 1 < usEnd := by decide
  have hp0 : parseNum (Num.toRat (numAdd (serialize (usOfYMD 1900 1 1)) (.int 1))) = some (usOfYMD 1900 1 1) := by
    decide +kernel
  have hp1 : parseNum (Num.toRat (numAdd (serialize (usOfYMD 1900 2 28)) (.int 1))) = some (usOfYMD 1900 3 1) := by
    decide +kernel
  have hp2 : parseNum (Num.toRat (numAdd (serialize (usOfYMD 1900 2 28)) (.int 2))) = some (usOfYMD 1900 3 1) := by
    decide +kernel
  have hs1 : numSub (serialize (usOfYMD 1900 1 2)) (serialize (usOfYMD 1900 1 1)) = .flt 2 := by decide +kernel
  have hs2 : numSub (serialize (usOfYMD 1900 3 1)) (serialize (usOfYMD 1900 2 28)) = .flt 2 := by decide +kernel
  refine ⟨?_, ?_, ?_, ?_, ?_⟩
  · unfold evalArith
    simp only [isErr, arithScalar, valueAndType, Operand.ty, hknown, hconv, applyConv, applyOp,
      applyResult, parseDateValue, hp0, hend.2, Bool.not_true, Bool.false_eq_true, if_false, if_true]
  · rw [sub_dates_serials, hs1]
  · unfold evalArith
    simp only [isErr, arithScalar, valueAndType, Operand.ty, hknown, hconv, applyConv, applyOp,
      applyResult, parseDateValue, hp1, hend.1, Bool.not_true, Bool.false_eq_true, if_false, if_true]
  · unfold evalArith
    simp only [isErr, arithScalar, valueAndType, Operand.ty, hknown, hconv, applyConv, applyOp,
      applyResult, parseDateValue, hp2, hend.1, Bool.not_true, Bool.false_eq_true, if_false, if_true]
  · rw [sub_dates_serials, hs2]

/-- The corollary "adding n to a date gives the date n days later" read over ALL date-times from
    1 January 1900 (instead of from 1 March 1900, where the Excel-1900 clause it follows from
    applies).  NOT a theorem: see `addDaysFrom1900_false`.  `add_days` is the part that holds. -/
def AddDaysFrom1900 : Prop :=
  ∀ (fuel : Nat) (us n : Int), 0 ≤ us → 0 ≤ us + n * usPerDay → us + n * usPerDay < usEnd →
    evalArith fuel .add (.date us) (.num (.int n)) = .ok (.date (us + n * usPerDay))

/-- … it fails at 1900-01-01 + 1 (the code gives 1900-01-01 again). -/
theorem addDaysFrom1900_false : ¬ AddDaysFrom1900 := by
  intro h
  have h1 := h 0 0 1 (by decide) (by decide) (by decide)
  have h2 := (early_1900_arithmetic 0).1
  rw [us_1900_01_01] at h2
  rw [h2] at h1
  have h3 : (0 : Int) = 0 + 1 * usPerDay := Value.date.inj (Except.ok.inj h1)
  exact absurd h3 (by decide)

/-- what a comparison operator does to two integers -/
def cmpInt : CmpOp → Int → Int → Bool
  | .lt, a, b => decide (a < b) | .gt, a, b => decide (a > b) | .le, a, b => decide (a ≤ b)
  | .ge, a, b => decide (a ≥ b) | .eq, a, b => decide (a = b) | .ne, a, b => decide (a ≠ b)

/-- All six comparison operators on two date-times (from 1900 on) compare their serials … -/
theorem compare_sees_serials (op : CmpOp) (a b : Int) :
    evalLogic op (.date a) (.date b) = .ok (.bool (match op with
      | .lt => decide (serial a < serial b) | .gt => decide (serial b < serial a)
      | .le => decide (serial a < serial b) || decide (serial a = serial b)
      | .ge => decide (serial b < serial a) || decide (serial a = serial b)
      | .eq => decide (serial a = serial b) | .ne => !decide (serial a = serial b))) := by
  have key : ∀ x y : Num, cmpLt (.num x) (.num y) = some (decide (Num.toRat x < Num.toRat y)) ∧
      cmpGt (.num x) (.num y) = some (decide (Num.toRat y < Num.toRat x)) ∧
      cmpEq (.num x) (.num y) = decide (Num.toRat x = Num.toRat y) := by
    intro x y
    cases x <;> cases y <;>
      simp [cmpLt, cmpGt, cmpEq, cmpLtCore, cmpGtCore, cmpEqCore.eq_def, sameType, bothPlainNumbers, pyLt, pyEq]
  obtain ⟨k1, k2, k3⟩ := key (serialize a) (serialize b)
  cases op <;> simp only [evalLogic, isErr, toCV, k1, k2, k3, serial, Option.map_some] <;> rfl

/-- … and therefore agree with the order of the date-times themselves. -/
theorem compare_by_serial (op : CmpOp) (a b : Int) (ha : 0 ≤ a) (hb : 0 ≤ b) :
    evalLogic op (.date a) (.date b) = .ok (.bool (cmpInt op a b)) := by
  rw [compare_sees_serials]
  have hlt := serial_lt_iff a b ha hb
  have hgt := serial_lt_iff b a hb ha
  have heq : serial a = serial b ↔ a = b := ⟨serial_injective a b ha hb, fun h => by rw [h]⟩
  cases op <;> simp only [cmpInt, hlt, hgt, heq] <;> congr 2 <;> grind

example : evalLogic .lt (.date 0) (.date 1) = .ok (.bool true) := compare_by_serial .lt 0 1 (by decide) (by decide)

/-- `N(date)`, `DATEVALUE(date)` give exactly the serial of `serialize_date`, and
    `DAYS(end, start)` the difference of the two serials — the same numbers the operators use. -/
theorem datevalue_n_days_agree (a b : Int) :
    Fn.Info.N [.date a] = .ok (.num (serialize a)) ∧
    Fn.DateTime.DATEVALUE [.date a] = .ok (.num (serialize a)) ∧
    Fn.DateTime.DAYS [.date a, .date b] = .ok (.num (numSub (serialize a) (serialize b))) ∧
    (∀ fuel, evalArith fuel .sub (.date a) (.date b) = Fn.DateTime.DAYS [.date a, .date b]) := by
  refine ⟨rfl, rfl, rfl, fun fuel => ?_⟩
  rw [sub_dates_serials]; rfl

/-- From 1 March 1900 on: `DATEVALUE` and `N` return the Excel serial (days since
    30 December 1899) and `DAYS` the days between the two date-times. -/
theorem datevalue_n_days_excel (a b : Int) (ha : usOfYMD 1900 3 1 ≤ a) (hb : usOfYMD 1900 3 1 ≤ b) :
    Fn.DateTime.DATEVALUE [.date a] = .ok (.num (.flt (((a - usOfYMD 1899 12 30 : Int) : Rat) / D))) ∧
    Fn.Info.N [.date a] = .ok (.num (.flt (((a - usOfYMD 1899 12 30 : Int) : Rat) / D))) ∧
    Fn.DateTime.DAYS [.date a, .date b] = .ok (.num (.flt (((a - b : Int) : Rat) / D))) := by
  obtain ⟨h1, h2, _, h4⟩ := datevalue_n_days_agree a b
  refine ⟨?_, ?_, ?_⟩
  · rw [h2, excel_1900_is_float a ha]
  · rw [h1, excel_1900_is_float a ha]
  · rw [← h4 0, sub_dates 0 a b ha hb]

example : Fn.DateTime.DAYS [.date (usOfYMD 2020 3 1), .date (usOfYMD 2020 2 1)] =
    .ok (.num (.flt (((usOfYMD 2020 3 1 - usOfYMD 2020 2 1 : Int) : Rat) / D))) :=
  (datevalue_n_days_excel _ _ (by decide) (by decide)).2.2

/-- `DATEVALUE` of a whole-number serial from 61 on returns that serial, and `DATEVALUE` of the
    date n days after 30 December 1899 is n: numbers, dates and serials name the same days. -/
theorem datevalue_of_serial (n : Int) (h1 : 61 ≤ n) (h2 : usOfYMD 1899 12 30 + n * usPerDay < usEnd) :
    Fn.DateTime.DATEVALUE [.num (.int n)] = .ok (.num (.flt (n : Rat))) ∧
    Fn.DateTime.DATEVALUE [.date (usOfYMD 1899 12 30 + n * usPerDay)] = .ok (.num (.flt (n : Rat))) := by
  have hp := (serial_roundtrip_int n h1).1
  have hs := excel_1900_whole_days n h1
  have hfl : serialize (usOfYMD 1899 12 30 + n * usPerDay) = .flt (n : Rat) := by
    have hne : usOfYMD 1899 12 30 + n * usPerDay ≠ 0 := by
      rw [us_1899_12_30, usPerDay_eq]; omega
    unfold serial at hs
    rw [serialize_closed _ hne] at hs ⊢
    exact congrArg Num.flt hs
  constructor
  · simp only [Fn.DateTime.DATEVALUE, Fn.DateTime.serializeDate, Fn.DateTime.parseDate, parseDateValue,
      Num.toRat, hp, h2, if_true, hfl]
  · simp only [Fn.DateTime.DATEVALUE, Fn.DateTime.serializeDate, Fn.DateTime.parseDate, hfl]

example : (61 : Int) ≤ 2958465 ∧ usOfYMD 1899 12 30 + 2958465 * usPerDay < usEnd ∧
    usOfYMD 1899 12 30 + 2958465 * usPerDay = usOfYMD 9999 12 31 := by decide

end HotXL.Props.C13
